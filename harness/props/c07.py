"""C07 — sample order and repetition do not change what is inferred."""
import itertools

from .. import common, coqterm as ct, gen, graphcanon, impl, pipeline
from . import base

RN3 = ("IntString", "FloatString", "BooleanString")
RN6 = RN3 + ("IsoDateString", "IsoTimeString", "IsoDatetimeString")
CORPUS = [
    [{"p": [{"x": 1, "y": 1}, {"y": 1}], "q": {"x": 1, "y": 2}}, {"q": {"x": 1, "y": 2}, "p": []}],      # D3
    [{"a": []}, {"a": [None]}, {"a": [1]}],                                                               # D1
    [{"a": "1"}, {"a": "1.5"}, {"a": "true"}, {"a": "x"}],                                                # D2
]


def registry_canon(samples, o):
    oo = dict(pipeline.DEFAULT_OPTS)
    oo.update(o)
    try:
        reg, _ = pipeline.build_registry([("Root", samples)], oo)
        return graphcanon.canon(reg), None
    except Exception as e:  # noqa
        return None, f"{type(e).__name__}: {e}"


def variants(r, s, tier):
    out = []
    if len(s) <= 4:
        out += [list(p) for p in itertools.permutations(s)][1:]
    else:
        for _ in range(6):
            p = list(s)
            r.shuffle(p)
            out.append(p)
    out.append(list(s) + [r.choice(s)])
    out.append([r.choice(s)] + list(s))
    out.append(list(s) + list(reversed(s)))
    return out[: (12 if tier == "quick" else 40)]


def run(chk, build):
    tier = chk.tier
    proofs_ok = base.proof_obligations(chk, build, ["Props/C07.v"], [])
    disagreements, oracle_failed = [], False
    n = 320 if tier == "quick" else 5000
    g0 = gen.Gen(chk.seed * 1000003 + 7)
    r = g0.r
    pterms, pmeta = [], []
    for i in range(n + len(CORPUS)):
        if i < len(CORPUS):
            s = CORPUS[i]
            o = {"cmp": None, "rn": RN3}
        else:
            dt = r.random() < 0.25
            gg = gen.Gen(r.randrange(10 ** 9), datetime=dt)
            s = gg.variants() if i % 2 == 1 else gg.literal_heavy() if i % 10 == 0 else gg.samples(depth=3, nmax=3 if i % 3 == 2 else 4)
            if i % 3 == 2:
                s = gg.type_twin(s)
            o = {"cmp": r.choice([None, None, [("exact",)], [("percent", 0.5)], [("number", 2)]]), "rn": RN6 if dt else RN3,
                 "dkf": r.choice([None, None, ["a"]])}
        ref, err = registry_canon(s, o)
        info = {"samples": s, "options": {k: (list(v) if isinstance(v, tuple) else v) for k, v in o.items()}}
        chk.count(key=repr(s) + repr(info["options"]), sample=info if len(chk.samples) < 2 else None)
        for v in variants(r, s, tier):
            c, e = registry_canon(v, o)
            if c != ref or e != err:
                why = ("the inferred models differ" if e is None and err is None else f"one order fails: {err!r} vs {e!r}")
                oracle_failed |= chk.fail("oracle", dict(info, variant=v), why)
                break
        # statement test on the model + X-infer tie
        res, ierr, _ = impl.run_generate(s, tuple(o["rn"]), None, o.get("dkf"))
        v = variants(r, s, "quick")[0]
        basec = impl.infer_case_term(s, tuple(o["rn"]), None, o.get("dkf"), res)
        pterms.append("{| c_base := " + basec + "; c_other := " + ct.clist([ct.cobj(x) for x in v]) + " |}")
        pmeta.append(dict(info, variant=v))
    base.run_view(chk, "Vperm", "statement-test(model: permuted / duplicated samples)", pterms, pmeta, disagreements,
                  header="From J2M.Views Require Import Vinfer.")
    # X-pyeq: the model of Python == on metadata (sorted, element-wise; order sensitive on same-key-set dicts) against the
    # implementation on random pairs of raw types, their type twins and permutations
    import os, re, subprocess
    env = dict(os.environ, J2M_REPO=common.REPO, PYTHONPATH=common.REPO)
    wd = os.path.join(chk.workdir, "pyeq")
    os.makedirs(wd, exist_ok=True)
    try:
        p = subprocess.run([common.PY, os.path.join(common.VERIF, "tools", "validate_pyeq.py"), "--n", "1500" if tier == "quick" else "30000",
                            "--seed", str(chk.seed + 1), "--keep", wd], capture_output=True, text=True, env=env, timeout=3000)
        out, rc = (p.stdout + p.stderr).strip(), p.returncode
    except subprocess.TimeoutExpired:
        out, rc = "timeout", 124
    m = re.search(r"OK\s+(\d+) pairs", out)
    chk.views["X-pyeq"] = {"cases": int(m.group(1)) if m else 0, "disagreements": 0 if rc == 0 else 1, "errors": [] if rc == 0 else [out[-600:]]}
    chk.evaluations += int(m.group(1)) if m else 0
    if rc != 0:
        disagreements.append({"view": "X-pyeq", "error": out[-1500:]})
    base.conclude(chk, proofs_ok, disagreements, oracle_failed)


def finish(chk):
    return chk.finish(level="proof",
                      rule="sample lists of 1-4 objects: every permutation, plus duplications (appended, prepended, mirrored); canonical "
                           "registries (colour refinement up to index renaming, field / member order, numeric name suffixes) compared after "
                           "generate + merge_models + generate_names under several merge policies; distinct = distinct (samples, options)")


def replay(chk, path):
    r = base.load_replay(path)
    if "samples" not in r:
        print("replay:", r.get("broken") or r)
        return 1
    o = dict(r["options"])
    if o.get("rn"):
        o["rn"] = tuple(o["rn"])
    if o.get("cmp"):
        o["cmp"] = [tuple(x) for x in o["cmp"]]
    a, b = registry_canon(r["samples"], o), registry_canon(r["variant"], o)
    print("REPLAY", "FAILS: results differ" if a != b else "passes")
    return 1 if a != b else 0
