"""C05 — models are merged exactly along the configured similarity relation."""
import copy
import itertools
from fractions import Fraction

from .. import common, coqterm as ct, gen, impl
from . import base

RN3 = ("IntString", "FloatString", "BooleanString")


# ---------------------------------------------------------------------------------------------------------------
# independent reading of the property

def spec_cmp(policy, a, b):
    """the documented comparators on key sets: exact key set | shared-key ratio >= p | shared-key count >= n"""
    a, b = set(a), set(b)
    for p in policy:
        if p[0] == "exact" and a == b:
            return True
        if p[0] == "percent" and len(a | b) and Fraction(len(a & b), len(a | b)) >= Fraction(p[1]).limit_denominator(10000):
            return True
        if p[0] == "number" and len(a & b) >= p[1]:
            return True
    return False


def components(nodes, edge):
    parent = {n: n for n in nodes}

    def find(x):
        while parent[x] != x:
            parent[x] = parent[parent[x]]
            x = parent[x]
        return x
    for a, b in itertools.combinations(nodes, 2):
        if edge(a, b):
            parent[find(a)] = find(b)
    comp = {}
    for n in nodes:
        comp.setdefault(find(n), []).append(n)
    return sorted(sorted(c) for c in comp.values() if len(c) > 1)


def ptrs_in(t, acc):
    from json_to_models.dynamic_typing import ModelPtr, BaseType
    if isinstance(t, dict):
        for v in t.values():
            ptrs_in(v, acc)
    elif isinstance(t, ModelPtr):
        acc.append(t)
    elif isinstance(t, BaseType):
        for x in t:
            ptrs_in(x, acc)
    return acc


def oracle(out, policy, table):
    """out: result of impl.run_registry.  -> failure description or None"""
    if out["error"]:
        return "merge_models raises " + out["error"]
    reg = out["reg"]
    pre = out["pre_keys"]
    nodes = sorted(pre)
    if table is not None:
        edge = lambda a, b: frozenset((a, b)) in table
    else:
        pol = policy or [("percent", 0.7), ("number", 10)]
        edge = lambda a, b: spec_cmp(pol, pre[a], pre[b])
    want = components(nodes, edge)
    got = sorted(sorted(grp) for _, grp in out["replaces"])
    if want != got:
        return f"groups {got} differ from the connected components {want}"
    registered = {ct.index_to_n(m.index): m for m in reg.models}
    merged_members = {x for g in got for x in g}
    for new, grp in out["replaces"]:
        if new not in registered:
            return f"reported merged model {new} is not registered"
        keys = list(registered[new].type.keys())
        union = []
        for x in sorted(grp):
            for k in pre[x]:
                if k not in union:
                    union.append(k)
        if set(keys) != set(union):
            return f"merged model {new} has keys {keys}, members' union is {union}"
    for x in merged_members:
        if x in registered:
            return f"merged member {x} is still registered"
    for n in nodes:
        if n not in merged_members:
            if n not in registered:
                return f"untouched model {n} disappeared"
            if list(registered[n].type.keys()) != pre[n]:
                return f"untouched model {n} changed its keys"
    if len(registered) != len(nodes) - len(merged_members) + len(got):
        return "registry size does not match the replacement list"
    # every reference points to a registered model
    for m in reg.models:
        for p in ptrs_in(m.type, []):
            if reg.models_map.get(p.type.index) is not p.type:
                return f"field of model {m.index} references unregistered model {p.type.index}"
        for p in list(m.pointers) + list(m.child_pointers):
            if reg.models_map.get(p.type.index) is not p.type:
                return f"pointer set of {m.index} targets unregistered model {p.type.index}"
            if p.parent is not None and reg.models_map.get(p.parent.index) is not p.parent:
                return f"pointer set of {m.index} has unregistered parent {p.parent.index}"
    return None


# ---------------------------------------------------------------------------------------------------------------

def graph_input(k):
    """one sample producing k models: root (index 0) with k-1 nested objects; overlapping keys, different types"""
    vals = [1, "s", 2.5, None, [1], True, "1"]
    root = {"x": 0, "y0": 1}
    for i in range(1, k):
        root[f"f{i}"] = {"x": vals[i % len(vals)], f"y{i}": i, **({"z": {"x": i}} if False else {})}
    return [root]


def cmp_cases():
    """boundary key sets for the three comparators"""
    out = []
    K = [f"k{i}" for i in range(40)]
    for p in (0.5, 0.7, 0.95, 0.33, 1.0, 0.01):
        fr = Fraction(p).limit_denominator(100)
        for union in (1, 2, 3, 7, 10, 20):
            for shared in range(0, union + 1):
                if abs(Fraction(shared, union) - fr) <= Fraction(1, 5) or shared in (0, union):
                    a = K[:shared] + K[shared:shared + (union - shared) // 2]
                    b = K[:shared] + K[shared + (union - shared) // 2:union]
                    out.append(([("percent", p)], a, b))
    # near-boundary sweep: every (shared, union) with union <= 40 whose ratio is within 0.02 of the threshold
    for p in (0.5, 0.67, 0.7, 0.725, 0.75, 0.8, 0.86, 0.9, 0.34):
        fr = Fraction(repr(p))
        for union in range(1, 41):
            for shared in range(0, union + 1):
                if abs(Fraction(shared, union) - fr) <= Fraction(1, 50):
                    a = K[:shared] + K[shared:shared + (union - shared) // 2]
                    b = K[:shared] + K[shared + (union - shared) // 2:union]
                    out.append(([("percent", p)], a, b))
    for n in (1, 2, 3, 10):
        for shared in (n - 1, n, n + 1):
            if shared >= 0:
                out.append(([("number", n)], K[:shared] + ["a"], K[:shared] + ["b"]))
    out.append(([("exact",)], ["a", "b"], ["b", "a"]))
    out.append(([("exact",)], ["a", "b"], ["a"]))
    out.append(([("exact",)], [], []))
    out.append(([("percent", 0.7)], [], []))            # ZeroDivisionError
    out.append((None, K[:7], K[:7] + K[10:13]))          # default policy: 7/10
    out.append((None, K[:7], K[:7] + K[10:14]))          # 7/11 < 0.7, 7 < 10
    out.append((None, K[:10] + K[20:30], K[:10] + K[30:40]))   # 10 shared of 30
    out.append(([("percent", 0.7), ("number", 10)], K[:9] + K[20:30], K[:9] + K[30:40]))
    return out


def cmp_term(policy, a, b):
    from json_to_models.registry import ModelRegistry
    from json_to_models.dynamic_typing import ModelMeta
    reg = ModelRegistry(*impl.make_cmp(policy))
    ma, mb = ModelMeta({k: int for k in a}, "1A"), ModelMeta({k: int for k in b}, "1B")
    try:
        exp = bool(reg._models_cmp_fn(ma, mb))
        e = f"(Some {ct.cbool(exp)})"
    except ZeroDivisionError:
        exp, e = None, "None"

    def spec(p):
        if p[0] == "exact":
            return "CExact"
        if p[0] == "percent":
            fr = Fraction(repr(p[1]))
            return f"(CPercent {fr.numerator} {fr.denominator})"
        return f"(CNumber {p[1]})"
    pol = "default_policy" if policy is None else ct.clist([spec(p) for p in policy])
    return ("{| c_policy := " + pol + "; c_a := " + ct.clist([ct.cstr(k) for k in a]) + "; c_b := " +
            ct.clist([ct.cstr(k) for k in b]) + "; c_expected := " + e + " |}"), exp


def one_registry_case(samples, policy, table):
    res, err, G = impl.run_generate(samples, RN3)
    if res is None:
        return None
    roots_terms = [(ct.cfields(res), "Root")]
    out = impl.run_registry([(res, "Root")], policy, gen=G, table=table)
    return impl.registry_case_term(roots_terms, RN3, out), out


def run(chk, build):
    tier = chk.tier
    proofs_ok = base.proof_obligations(chk, build, ["Props/C05.v"], ["Cmp"])
    disagreements, oracle_failed = [], False
    # ---- X-cmp
    terms, meta = [], []
    for policy, a, b in cmp_cases():
        t, exp = cmp_term(policy, a, b)
        terms.append(t)
        meta.append((policy, a, b))
        chk.count(key=("cmp", repr(policy), len(a), len(b), exp))
        if exp is not None:
            want = spec_cmp(policy or [("percent", 0.7), ("number", 10)], a, b)
            if want != exp:
                oracle_failed |= chk.fail("oracle", {"policy": policy, "keys_a": a, "keys_b": b},
                                          f"comparator answers {exp}, the documented rule gives {want}")
    tot, bad, errs = common.eval_cases("Vcmp", terms, chk.workdir, shard=200, header="From J2M.Model Require Import Cmp.")
    chk.views["X-cmp"] = {"cases": tot, "disagreements": len(bad), "errors": errs[:2]}
    disagreements += [{"view": "Vcmp", "policy": meta[b][0], "keys_a": meta[b][1], "keys_b": meta[b][2]} for b in bad[:5]]
    if errs:
        disagreements.append({"view": "Vcmp", "error": errs[0]})
    # ---- X-registry over every similarity graph on <= kmax models (table-driven comparator)
    kmax = 5 if tier == "quick" else 6
    terms, meta = [], []
    for k in range(2, kmax + 1):
        pairs = list(itertools.combinations(range(k), 2))
        samples = graph_input(k)
        for mask in range(1 << len(pairs)):
            table = {frozenset(p) for i, p in enumerate(pairs) if mask >> i & 1}
            r = one_registry_case(samples, None, table)
            if r is None:
                continue
            t, out = r
            terms.append(t)
            meta.append({"samples": samples, "table": sorted(sorted(x) for x in table)})
            chk.count(key=("graph", k, mask), sample=meta[-1] if mask == 5 else None)
            why = oracle(out, None, table)
            if why:
                oracle_failed |= chk.fail("oracle", meta[-1], why)
    # ---- real comparators on random inputs
    g = gen.Gen(chk.seed * 1000003 + 5)
    n_rand = 300 if tier == "quick" else 10000
    for i in range(n_rand):
        s = g.family() if i % 4 == 1 else g.variants() if i % 4 == 3 else g.samples(depth=4)
        policy = g.r.choice([None, [("exact",)], [("percent", 0.5)], [("number", 2)], [("percent", 0.7), ("number", 3)],
                             [("number", 1)], [("number", 10)], [("percent", 0.34)]])
        r = one_registry_case(s, policy, None)
        if r is None:
            continue
        t, out = r
        # the closure loop of the model is evaluated with list-based sets inside coqc: dense similarity graphs on many
        # models take minutes there, so those cases are judged by the oracle only (counted in the evidence)
        if len(out["pairs"]) <= 12:
            terms.append(t)
            meta.append({"samples": s, "policy": policy})
        else:
            chk.notes["dense_graphs_oracle_only"] = chk.notes.get("dense_graphs_oracle_only", 0) + 1
        chk.count(key=("real", repr(out.get("replaces")), repr(sorted(out.get("pre_keys", {}).items()))),
                  sample={"samples": s, "policy": policy} if i < 2 else None)
        why = oracle(out, policy, None)
        if why:
            oracle_failed |= chk.fail("oracle", {"samples": s, "policy": policy}, why)
    # ---- incremental use: merge_models called AGAIN on a registry that was merged before and then received more data.
    # The relation is the same one: the models registered before the second call (merged ones with the union of their
    # members' keys) end up in one class iff connected by comparator-satisfying pairs on THOSE key sets.
    from json_to_models.generator import MetadataGenerator
    from json_to_models.registry import ModelRegistry
    gi = gen.Gen(chk.seed * 1000003 + 55)
    for i in range(60 if tier == "quick" else 3000):
        policy = gi.r.choice([None, None, [("number", 2)], [("percent", 0.5)], [("number", 4)]])
        rounds = [gi.family() if gi.r.random() < 0.5 else gi.variants() if gi.r.random() < 0.5 else gi.samples(depth=3) for _ in range(gi.r.randint(2, 3))]
        info = {"rounds": rounds, "policy": policy, "stage": "incremental"}
        chk.count(key=("incremental", repr(rounds), repr(policy)), sample=info if i == 0 else None)
        try:
            with common.time_limit(20):
                why = incremental_case(rounds, policy)
        except TimeoutError:
            continue
        except ZeroDivisionError:
            continue
        except Exception as e:  # noqa
            why = f"incremental merge raises {type(e).__name__}: {e}"
        if why:
            oracle_failed |= chk.fail("oracle", info, why)
    tot, bad, errs = common.eval_cases("Vregistry", terms, chk.workdir, shard=100)
    chk.views["X-registry"] = {"cases": tot, "disagreements": len(bad), "errors": errs[:2], "all_graphs_up_to": kmax}
    disagreements += [dict(meta[b], view="Vregistry") for b in bad[:5]]
    if errs:
        disagreements.append({"view": "Vregistry", "error": errs[0]})
    if (not proofs_ok or disagreements) and not oracle_failed:
        what = [n for n, ok, _ in chk.obligations if not ok] + sorted({d["view"] for d in disagreements})
        chk.fail_nowitness("; ".join(what), {"disagreements": disagreements[:5],
                                             "obligations": [o for o in chk.obligations if not o[1]]})


def finish(chk):
    return chk.finish(level="proof",
                      rule="every similarity graph on <=5 (quick) / <=6 (thorough) models through a table-driven comparator, "
                           "threshold-boundary key sets for the three comparators, random inputs with real comparators; "
                           "distinct = distinct (graph | comparator answer | replacement list + key sets)")


def incremental_case(rounds, policy):
    """merge_models after every round of new data on ONE registry -> failure description or None"""
    from json_to_models.generator import MetadataGenerator
    from json_to_models.registry import ModelRegistry
    G = MetadataGenerator(impl.make_registry(RN3))
    reg = ModelRegistry(*impl.make_cmp(policy))
    for j, s in enumerate(rounds):
        reg.process_meta_data(G.generate(*copy.deepcopy(s)), f"Root{j}")
        pre = {m.index: list(m.type.keys()) for m in reg.models}
        reps = reg.merge_models(G)
        pol = policy or [("percent", 0.7), ("number", 10)]
        want = components(sorted(pre), lambda a, b: spec_cmp(pol, pre[a], pre[b]))
        got = sorted(sorted(x.index for x in grp) for _, grp in reps)
        if want != got:
            return f"call {j + 1} of merge_models: groups {got} differ from the connected components {want} of the models registered before it"
    return None


def replay(chk, path):
    r = base.load_replay(path)
    if "rounds" in r:
        policy = [tuple(p) for p in r["policy"]] if r.get("policy") else None
        why = incremental_case(r["rounds"], policy)
    elif "samples" in r:
        table = {frozenset(x) for x in r["table"]} if "table" in r else None
        policy = [tuple(p) for p in r["policy"]] if r.get("policy") else None
        res = one_registry_case(r["samples"], policy, table)
        why = oracle(res[1], policy, table) if res else "generate failed"
    elif "keys_a" in r:
        policy = [tuple(p) for p in r["policy"]] if r.get("policy") else None
        _, exp = cmp_term(policy, r["keys_a"], r["keys_b"])
        want = spec_cmp(policy or [("percent", 0.7), ("number", 10)], r["keys_a"], r["keys_b"])
        why = None if exp == want else f"comparator answers {exp}, rule gives {want}"
    else:
        print("replay names a broken obligation / view:", r.get("broken"))
        return 1
    print("REPLAY", "FAILS: " + why if why else "passes")
    return 1 if why else 0
