"""C06 — output is a deterministic function of inputs and options."""
import hashlib
import json

from .. import clirun, common, gen
from . import base

CORPUS_FILES = ["findings/d24_input.json"]


def one(job):
    seed, idx, nseeds = job
    g = gen.Gen(seed * 1299709 + idx)
    r = g.r
    sb = clirun.Sandbox("c06")
    try:
        if idx < len(CORPUS_FILES):
            import os
            text = open(os.path.join(common.VERIF, CORPUS_FILES[idx])).read()
            argv_opts = ["--merge", "percent_50"]
        elif idx == len(CORPUS_FILES):
            # D4 (fixed): similar nested models whose merge order decides field / member order
            text = ('[{"a": {"x": 1, "y": "s", "z": null}, "b": {"y": 2.5, "x": "t", "w": []}, '
                    '"c": [{"x": null, "y": 1, "k": {"x": 1, "y": 2, "u": 1}}]}]')
            argv_opts = ["--merge", "number_2"]
        elif idx % 6 == 2:
            # literal values that differ only in letter case, several per field: any order that is not total over the
            # strings (a case-insensitive sort key, set iteration) shows under different hash seeds
            words = r.sample(["active", "get", "ok", "north", "id", "json"], 3)
            vals = [f(w) for w in words for f in (str.lower, str.upper, str.capitalize)]
            r.shuffle(vals)
            text = json.dumps([{"status": v, "tags": r.sample(vals, 3)} for v in vals])
            argv_opts = r.choice([[], ["-f", "pydantic"], ["-f", "dataclasses", "-s", "nested"]]) + ["--max-strings-literals", "16"]
        elif idx % 6 == 5:
            def reorder(v):
                if isinstance(v, list):
                    return [reorder(x) for x in v]
                if isinstance(v, dict):
                    items = [(k, reorder(x)) for k, x in v.items()]
                    r.shuffle(items)
                    return dict(items)
                return v
            base_s = g.samples(depth=4, nmax=2)
            if r.random() < 0.6:      # a list field holding objects of two shapes, as in event streams
                base_s[0]["events"] = [{"kind": "a", "x": 1, "y": "s"}, {"kind": "b", "target": {"id": 1, "name": "n"}, "ts": 1.5}]
            samples = base_s + [dict(s_) for s_ in base_s] + [reorder(s_) for s_ in base_s]
            text = json.dumps(samples)
            argv_opts = r.choice([[], ["-f", "pydantic", "-s", "nested"], ["--merge", "number_2"]])
        else:
            samples = g.samples(depth=4, nmax=4)
            text = json.dumps(samples)
            argv_opts = r.choice([[], ["--merge", "percent_50"], ["--merge", "number_2"], ["--merge", "number_1"], ["--merge", "exact"]])
            argv_opts = argv_opts + r.choice([[], ["-s", "nested"], ["-f", "pydantic"], ["-f", "attrs", "--strings-converters"],
                                              ["-f", "dataclasses", "-s", "nested"], ["--datetime"], ["--max-strings-literals", "3"]])
        sb.write("in.json", text)
        argv = ["-m", "Root", "in.json"] + argv_opts
        if idx % 6 == 4 and idx > len(CORPUS_FILES):
            # the samples spread over several files that ONE pattern argument collects: the order in which the tool itself
            # enumerates the files must not depend on the hash seed either
            try:
                docs = json.loads(text)
            except ValueError:
                docs = None
            if isinstance(docs, list) and len(docs) >= 2:
                for j, d in enumerate(docs):
                    sb.write(f"part_{'abcdefgh'[j % 8]}{j}.json", json.dumps(d))
                argv = ["-m", "Root", "part_*.json"] + argv_opts
        outs = {}
        first_err = None
        for s in range(nseeds):
            rc, out, err = clirun.run_cli(argv, sb.dir, hashseed=str(s * 7919 + 1 if s else 0))
            body = clirun.strip_header(out)[1] if rc == 0 else f"<exit {rc}> " + err.strip().split("\n")[-1][:200]
            outs.setdefault(hashlib.sha1(body.encode()).hexdigest(), []).append(s)
        info = {"argv": argv, "input": text if len(text) < 3000 else text[:3000] + "...", "seeds": nseeds}
        if len(outs) > 1:
            return idx, f"{len(outs)} distinct outputs over {nseeds} hash seeds: " + json.dumps({k[:8]: v for k, v in outs.items()}), info
        return idx, None, info
    finally:
        sb.close()


def run(chk, build):
    tier = chk.tier
    proofs_ok = base.proof_obligations(chk, build, ["Props/C06.v"], ["IterSites", "Globals"])
    n, nseeds = (60, 8) if tier == "quick" else (500, 64)
    oracle_failed = False
    for idx, why, info in clirun.parallel(one, [(chk.seed, i, nseeds) for i in range(n)], workers=common.NPROC):
        chk.count(key=repr(info["argv"]) + info["input"], sample={"argv": info["argv"], "seeds": nseeds} if len(chk.samples) < 3 else None)
        if why:
            oracle_failed |= chk.fail("oracle", dict(info, index=idx), why)
    chk.views["X-seeds"] = {"cases": n, "seeds_per_case": nseeds, "disagreements": 0, "errors": []}
    base.conclude(chk, proofs_ok, [], oracle_failed)


def finish(chk):
    return chk.finish(level="proof",
                      rule="minimised inputs of the two repaired order defects first, then random sample lists (nesting to depth 4, key pool "
                           "forcing merges and recursive model graphs) x merge policies x frameworks / layouts, each run in fresh processes "
                           "under 8 (quick) / 64 (thorough) values of PYTHONHASHSEED, bodies compared byte for byte")


def replay(chk, path):
    r = base.load_replay(path)
    if "index" not in r:
        print("replay:", r.get("broken") or r)
        return 1
    _, why, _ = one((r["seed"], r["index"], r.get("seeds", 8)))
    print("REPLAY", "FAILS: " + why if why else "passes")
    return 1 if why else 0
