"""C12 — flat and nested layouts describe the same models."""
import re

from .. import common, coqterm as ct, emitcase, gen, impl, modast, pipeline
from . import base

RN3 = ("IntString", "FloatString", "BooleanString")


def oracle(samples, o):
    """-> failure or None"""
    oo = dict(pipeline.DEFAULT_OPTS)
    oo.update(o)
    try:
        reg, _ = pipeline.build_registry([("Root", samples)], oo)
    except Exception as e:  # noqa
        return f"registry construction raises {type(e).__name__}: {e}", None
    n_models = len(reg.models)
    tree = pipeline.tree_shaped(reg)
    ref = pipeline.referrers(reg)
    try:
        flat = pipeline.render(reg, dict(oo, structure="flat"))
    except Exception as e:  # noqa
        return f"flat rendering raises {type(e).__name__}: {e}", tree
    try:
        fc, _ = modast.class_tree(flat)
    except SyntaxError as e:
        return f"flat layout is not valid Python: {e}", tree
    if any(c["nested"] for c in fc):
        return "flat layout contains nested classes", tree
    if len(fc) != n_models:
        return f"flat layout emits {len(fc)} classes for {n_models} models", tree
    if len({c["name"] for c in fc}) != len(fc):
        return "flat layout emits a class twice", tree
    if not tree:
        return None, tree
    # tree-shaped graphs: root first, nested layout has the same classes / fields, each class inside its referrer
    name_of = {m.index: m.name for m in reg.models}
    roots = [i for i, r in ref.items() if not r]
    if len(roots) == 1 and fc[0]["name"] != name_of[roots[0]]:
        return f"flat layout starts with {fc[0]['name']}, the root model is {name_of[roots[0]]}", tree
    try:
        nested = pipeline.render(reg, dict(oo, structure="nested"))
    except Exception as e:  # noqa
        return f"nested rendering raises {type(e).__name__}: {e}", tree
    try:
        nc, _ = modast.class_tree(nested)
    except SyntaxError as e:
        return f"nested layout is not valid Python although the flat one is: {e}", tree
    nflat = modast.flatten(nc)
    if len(nflat) != n_models:
        return f"nested layout emits {len(nflat)} classes for {n_models} models", tree
    fby = {c["name"]: c for c in fc}
    name_of = {m.index: m.name for m in reg.models}        # names after rendering (idempotent conversion)
    idx_of = {v: k for k, v in name_of.items()}
    for c, parent in nflat:
        f = fby.get(c["name"])
        if f is None:
            return f"class {c['name']} of the nested layout is missing from the flat layout", tree
        if f["fields"] != c["fields"] or f["decorators"] != c["decorators"] or f["bases"] != c["bases"]:
            return f"class {c['name']} differs between the layouts: {f['fields']} vs {c['fields']}", tree
        i = idx_of.get(c["name"])
        if i is None:
            return f"class {c['name']} does not correspond to a model", tree
        want_parent = next(iter(ref[i])) if ref[i] else None
        got_parent = idx_of.get(parent["name"]) if parent else None
        if want_parent != got_parent:
            return f"class {c['name']} is placed inside {parent['name'] if parent else 'the module'}, it is referenced from {name_of.get(want_parent)}", tree
    return None, tree


def run(chk, build):
    tier = chk.tier
    proofs_ok = base.proof_obligations(chk, build, ["Props/C12.v"], [])
    disagreements, oracle_failed = [], False
    n = 400 if tier == "quick" else 10000
    g0 = gen.Gen(chk.seed * 1000003 + 12)
    lterms, lmeta, eterms, emeta = [], [], [], []
    ntree = 0
    for i in range(n):
        keys = None
        if i % 4 == 0:
            # keys with line-separator-like characters, quotes and non-ASCII letters: the nested layout re-indents class text
            keys = ["a", "b", "c", "na\u2028me", "li\x85ne", "q\"uote", "t\tab", "été", "x\u2029y", "id", "list", "1st"]     # the last three: class names that change when converted
        g = gen.Gen(g0.r.randrange(10 ** 9), keys=keys)
        s = g.family() if i % 5 == 2 else g.samples(depth=4 if i % 2 else 3)
        o = {"fw": g0.r.choice(pipeline.FRAMEWORKS), "cmp": g0.r.choice([None, None, [("exact",)], [("percent", 0.5)], [("number", 2)], [("number", 1)], [("number", 10)], [("number", 10)]]),
             "rn": RN3}
        why, tree = oracle(s, o)
        ntree += bool(tree)
        info = {"samples": s, "options": o, "tree_shaped": tree}
        chk.count(key=repr(s) + repr(o), sample=info if len(chk.samples) < 2 else None)
        if why:
            oracle_failed |= chk.fail("oracle", info, why)
        oo = dict(pipeline.DEFAULT_OPTS)
        oo.update(o)
        try:
            reg, _ = pipeline.build_registry([("Root", s)], oo)
        except Exception:  # noqa
            continue
        for nested in (False, True):
            t, st = emitcase.layout_case(reg, nested)
            lterms.append(t)
            lmeta.append(dict(info, nested=nested))
        if i % 3 == 0:
            for structure in ("flat", "nested") if tree else ("flat",):
                reg2, _ = pipeline.build_registry([("Root", s)], oo)
                t, text, err = emitcase.emit_case(reg2, dict(oo, structure=structure))
                eterms.append(t)
                emeta.append(dict(info, structure=structure))
    chk.notes["tree_shaped_inputs"] = ntree
    base.run_view(chk, "Vlayout", "X-layout", lterms, lmeta, disagreements, header="From J2M.Model Require Import Emit.")
    base.run_view(chk, "Vemit", "X-emit", eterms, emeta, disagreements, shard=50, header=base.EMIT_HEADER)
    base.conclude(chk, proofs_ok, disagreements, oracle_failed)


def finish(chk):
    return chk.finish(level="proof",
                      rule="random sample lists (nesting to depth 4, key pool forcing merges) x merge policies x frameworks; both layouts of "
                           "every registry through X-layout; flat completeness judged on every input, the nested claims on the tree-shaped "
                           "ones (counted in tree_shaped_inputs); distinct = distinct (samples, options)")


def replay(chk, path):
    r = base.load_replay(path)
    if "samples" not in r:
        print("replay names a broken obligation / view:", r.get("broken"))
        return 1
    o = dict(r["options"])
    if o.get("rn"):
        o["rn"] = tuple(o["rn"])
    if o.get("cmp"):
        o["cmp"] = [tuple(x) for x in o["cmp"]]
    why, _ = oracle(r["samples"], o)
    print("REPLAY", "FAILS: " + why if why else "passes")
    return 1 if why else 0
