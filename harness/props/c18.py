"""C18 — generated attrs / dataclass models construct from their samples and convert."""
import copy
import json
import math

from .. import common, coqterm as ct, gen, impl, pipeline
from ..gen import all_strings
from . import base

RN3 = ("IntString", "FloatString", "BooleanString")
RN6 = RN3 + ("IsoDateString", "IsoTimeString", "IsoDatetimeString")
CORPUS = [
    ([{"a": None}, {"a": ["1"]}], {"fw": "attrs", "converters": True}),             # D13
    ([{"a": None}, {"a": ["1"]}], {"fw": "dataclasses", "converters": True}),
    ([{"a": [], "b": "1"}], {"fw": "attrs", "converters": True}),                   # D19
    ([{"b": "true"}, {}], {"fw": "dataclasses", "converters": True}),               # D29
    ([{"b": "true"}, {"b": None}], {"fw": "attrs", "converters": True}),
    ([{"a": "1"}, {}], {"fw": "attrs", "converters": False}),                       # D6
    ([{"a": {"k": ["1", "2"]}, "b": [["1.5"], []], "c": None}, {"a": {}, "b": [], "c": "true"}], {"fw": "dataclasses", "converters": True, "dkf": ["a"]}),
]


def pseudo_value(depth, r, datetime):
    k = r.random()
    s = r.choice(["1", "42", "-7", "1.5", "2e3", "true", "False", "True", "TRUE", "FALSE", "+3", " 5 ", "1_000", ".5", "-Infinity", "nan", "", "", "1" * 40] + (["2020-01-02", "12:30:45", "2020-01-02T03:04:05"] if datetime else []))
    if depth <= 0 or k < 0.4:
        return s
    if k < 0.55:
        return None
    if k < 0.75:
        return [pseudo_value(depth - 1, r, datetime) for _ in range(r.randint(0, 3))]
    if k < 0.9:
        return {f"k{i}": pseudo_value(depth - 1, r, datetime) for i in range(r.randint(0, 2))}
    return r.choice([1, "plain", [], {}])


def same(a, b):
    if isinstance(a, float) and isinstance(b, float) and math.isnan(a) and math.isnan(b):
        return True
    return a == b and type(a) is type(b)


def expected_value(v, ann):
    """parse at the pseudo-typed leaves of the annotation, keep None, map over lists / dicts"""
    import typing
    from inspect import isclass
    from json_to_models.dynamic_typing import StringSerializable
    org = typing.get_origin(ann)
    if org is typing.Union:
        args = [a for a in typing.get_args(ann) if a is not type(None)]
        if v is None:
            return None
        if len(args) == 1:
            return expected_value(v, args[0])
        return v
    if org in (list, typing.List) and isinstance(v, list):
        return [expected_value(x, typing.get_args(ann)[0]) for x in v]
    if org in (dict, typing.Dict) and isinstance(v, dict):
        return {k: expected_value(x, typing.get_args(ann)[1]) for k, x in v.items()}
    if isclass(ann) and issubclass(ann, StringSerializable) and isinstance(v, str):
        # INDEPENDENT of the package's own parser for the three basic pseudo-types: what the original string means is
        # computed with the builtins, then wrapped into the class only to have a value of the right type to compare with
        try:
            if ann.__name__ == "IntString":
                return ann(int(v))
            if ann.__name__ == "FloatString":
                return ann(float(v))
        except ValueError:
            # the annotation says a numeric pseudo-type although the sample's own string is not one: nothing the field holds
            # can be "equal to parsing the original string"
            return ("<the sample string does not parse as the annotated type>", v)
        if ann.__name__ == "BooleanString":
            return ann(v.lower() == "true")
        return ann.to_internal_value(v)
    return v


def has_unique_path(t):
    from json_to_models.dynamic_typing import DDict, DList, DOptional, StringSerializable
    from inspect import isclass
    while isinstance(t, (DOptional, DList, DDict)):
        t = t.type
    return isclass(t) and issubclass(t, StringSerializable)


def oracle(samples, o):
    """-> (failure, tags, view terms)"""
    from json_to_models.models.base import prepare_label
    from json_to_models.models.string_converters import get_string_field_paths
    oo = dict(pipeline.DEFAULT_OPTS)
    oo.update(o)
    terms = []
    try:
        reg, _ = pipeline.build_registry([("Root", samples)], oo)
    except Exception as e:  # noqa
        return f"registry construction raises {type(e).__name__}: {e}", set(), terms
    root = [m for m in reg.models if m.name == "Root"]
    if not root:
        return None, set(), terms
    rootm = root[0]
    root_fields = dict(rootm.type)
    try:
        code = pipeline.render(reg, oo)
    except Exception as e:  # noqa
        return f"generate_code raises {type(e).__name__}: {e}", set(), terms
    try:
        m = pipeline.load(code)
    except Exception as e:  # noqa
        return f"emitted module does not load: {type(e).__name__}: {str(e)[:200]}", set(), terms
    try:
        cls = m.Root
        import typing
        from harness import validate
        hints = validate.class_hints(cls, m)
        for i, s in enumerate(samples):
            kwargs = {}
            given = copy.deepcopy(s)            # the object handed to the constructor; must come back unchanged
            for k, v in given.items():
                lab = prepare_label(k, convert_unicode=oo["unidecode"], to_snake_case=True)
                # attrs: a "private" attribute _x is passed to the generated __init__ as x
                kwargs[lab.lstrip("_") if oo["fw"] == "attrs" and lab.startswith("_") and lab.lstrip("_") else lab] = v
            try:
                inst = cls(**kwargs)
            except Exception as e:  # noqa
                tags = set()
                if oo["fw"] == "attrs" and not oo["converters"]:
                    # the per-field converter form: claimed for integer and float strings only
                    for k, t in root_fields.items():
                        from json_to_models.dynamic_typing import DOptional
                        tt = t.type if isinstance(t, DOptional) else t
                        if getattr(tt, "__name__", "") in ("BooleanString", "IsoDateString", "IsoTimeString", "IsoDatetimeString"):
                            tags.add("attrs-field-converter-bool-date")
                return f"constructing Root from sample {i} raises {type(e).__name__}: {str(e)[:160]}", tags, terms
            if not deep_same(given, s):
                return (f"constructing Root from sample {i} changed the sample object it was given (the converter works in place): "
                        f"{json.dumps(given, default=str)[:120]}"), set(), terms
            for k, v in s.items():
                lab = prepare_label(k, convert_unicode=oo["unidecode"], to_snake_case=True)
                try:
                    got = getattr(inst, lab)
                except AttributeError as e:
                    return f"sample {i}: the constructed object has no attribute {lab!r} for key {k!r}: {e}", set(), terms
                t = root_fields[k]
                if oo["converters"] and has_unique_path(t):
                    want = expected_value(v, hints[lab])
                    if not deep_same(got, want):
                        return f"field {lab} of sample {i}: converted value {got!r:.80}, expected {want!r:.80}", set(), terms
                elif oo["converters"]:
                    if not deep_same(got, v):
                        return f"field {lab} of sample {i} has no converter path but changed: {got!r:.80} vs {v!r:.80}", set(), terms
                elif oo["fw"] == "attrs" and getattr(t, "__name__", "") in ("IntString", "FloatString") and isinstance(v, str):
                    if not deep_same(got, t.to_internal_value(v)):
                        return f"attrs per-field converter: {lab} = {got!r}, expected {t.to_internal_value(v)!r}", set(), terms
        # view term: paths + conversion of every sample object at Root
        if oo["converters"]:
            terms = [view_term(rootm, s, oo) for s in samples]
        return None, set(), terms
    finally:
        pipeline.unload(m)


def deep_same(a, b):
    if isinstance(a, list) and isinstance(b, list):
        return len(a) == len(b) and all(deep_same(x, y) for x, y in zip(a, b))
    if isinstance(a, dict) and isinstance(b, dict):
        return list(a) == list(b) and all(deep_same(a[k], b[k]) for k in a)
    return same(a, b)


def cval_term(res, orig):
    from json_to_models.dynamic_typing import StringSerializable
    if isinstance(res, StringSerializable) and isinstance(orig, str):
        return f"(VParsed {ct.PSEUDO[type(res).__name__]} {ct.cstr(orig)})"
    if isinstance(res, list) and isinstance(orig, list) and any(isinstance(x, (StringSerializable, list, dict)) for x in res) or (isinstance(res, list) and res == [] and isinstance(orig, list)):
        return "(VList " + ct.clist([cval_term(x, y) for x, y in zip(res, orig)]) + ")"
    if isinstance(res, dict) and isinstance(orig, dict):
        return "(VDict " + ct.clist([f"({ct.cstr(k)}, {cval_term(res[k], orig[k])})" for k in res]) + ")"
    return f"(VRaw {ct.cjson(orig)})"


def view_term(model, sample, oo):
    """implementation: get_string_field_paths + _process_string_field_value per field of one object"""
    from json_to_models.models.string_converters import _process_string_field_value, get_string_field_paths
    from json_to_models.dynamic_typing import metadata_to_typing
    import typing
    cl = impl.pseudo_classes()
    strings = sorted(all_strings(sample))
    acc = [(s, [n for n in oo["rn"] if impl.accepts(cl[n], s)]) for s in strings]
    try:
        paths = get_string_field_paths(model)
        pterm = "(Some " + ct.clist([f"({ct.cstr(k)}, {ct.cstr(p if isinstance(p, str) else ''.join(p))})" for k, p in paths]) + ")"
    except TypeError:
        paths, pterm = None, "None"
    exp = "None"
    if paths is not None:
        pd = dict(paths)
        out = []
        ok = True
        for k, v in sample.items():
            if k in pd:
                ann = ann_of(model.type[k])
                try:
                    res = _process_string_field_value(list(pd[k]) if pd[k] else ["S"], copy.deepcopy(v), ann)
                    out.append(f"({ct.cstr(k)}, {struct_term(res, v)})")
                except Exception:  # noqa
                    ok = False
                    break
            else:
                out.append(f"({ct.cstr(k)}, (VRaw {ct.cjson(v)}))")
        exp = "(Some " + ct.clist(out) + ")" if ok else "None"
    return ("{| c_accepts := " + ct.clist([f"({ct.cstr(s)}, {ct.clist([ct.PSEUDO[n] for n in l])})" for s, l in acc]) +
            "; c_fields := " + ct.cfields(model.type) + "; c_paths := " + pterm + "; c_obj := " + ct.cobj(sample) +
            "; c_expected := " + exp + " |}")


def struct_term(res, orig):
    """canonical cval of an implementation result, walking result and original value in parallel"""
    from json_to_models.dynamic_typing import StringSerializable
    if isinstance(res, StringSerializable) and isinstance(orig, str):
        return f"(VParsed {ct.PSEUDO[type(res).__name__]} {ct.cstr(orig)})"
    if isinstance(orig, list) and isinstance(res, list) and res is not orig and len(res) == len(orig) and (res or True):
        inner = [struct_term(x, y) for x, y in zip(res, orig)]
        return "(VList " + ct.clist(inner) + ")"
    if isinstance(orig, dict) and isinstance(res, dict) and list(res) == list(orig):
        return "(VDict " + ct.clist([f"({ct.cstr(k)}, {struct_term(res[k], orig[k])})" for k in res]) + ")"
    return f"(VRaw {ct.cjson(orig)})"


def ann_of(t):
    """the typing object of an IR type under the attrs/dataclasses style (pseudo classes kept)"""
    import typing
    from inspect import isclass
    from json_to_models.dynamic_typing import DDict, DList, DOptional, DUnion, Null, StringLiteral, Unknown
    if isinstance(t, DOptional):
        return typing.Optional[ann_of(t.type)]
    if isinstance(t, DList):
        return typing.List[ann_of(t.type)]
    if isinstance(t, DDict):
        return typing.Dict[str, ann_of(t.type)]
    if isinstance(t, DUnion):
        return typing.Union[tuple(ann_of(x) for x in t.types)]
    if isclass(t):
        return t
    if t is Null:
        return type(None)
    return typing.Any


def run(chk, build):
    tier = chk.tier
    proofs_ok = base.proof_obligations(chk, build, ["Props/C18.v"], [])
    disagreements, oracle_failed = [], False
    n = 400 if tier == "quick" else 10000
    g0 = gen.Gen(chk.seed * 1000003 + 18)
    r = g0.r
    terms, meta = [], []
    for i in range(n + len(CORPUS)):
        if i < len(CORPUS):
            s, o = CORPUS[i]
        else:
            dt = r.random() < 0.3
            keys = ["a", "b", "c", "d", "e"] if i % 3 else ["a", "_id", "_rev", "userName", "class", "list", "Field-Name", "b"]
            ns = r.randint(1, 3)
            s = [{k: pseudo_value(r.choice([0, 1, 2, 3]), r, dt) for k in r.sample(keys, r.randint(1, 4))} for _ in range(ns)]
            o = {"fw": r.choice(["attrs", "dataclasses"]), "converters": r.random() < 0.7, "rn": RN6 if dt else RN3,
                 "meta": r.random() < 0.3, "dkf": r.choice([None, None, ["a"], ["b", "c"]])}
        why, tags, vt = oracle(s, o)
        info = {"samples": s, "options": {k: (list(v) if isinstance(v, tuple) else v) for k, v in o.items()}}
        chk.count(key=repr(s) + repr(sorted(info["options"].items(), key=str)), sample=info if len(chk.samples) < 3 else None)
        if why:
            oracle_failed |= chk.fail("oracle", info, why, tags=tags)
        for t in vt:
            terms.append(t)
            meta.append(info)
    base.run_view(chk, "Vconv", "X-conv", terms, meta, disagreements, shard=60,
                  header="From J2M.Model Require Import Emit Converters.")
    base.conclude(chk, proofs_ok, disagreements, oracle_failed)


def finish(chk):
    return chk.finish(level="proof",
                      rule="objects whose fields hold string pseudo-types at nesting paths over Optional / List / Dict up to depth 3, empty "
                           "containers, nulls and non-convertible fields x {attrs, dataclasses} x converters on/off x 3/6 registered types; "
                           "distinct = distinct (samples, options)")


def replay(chk, path):
    r = base.load_replay(path)
    if "samples" not in r:
        print("replay:", r.get("broken") or r)
        return 1
    o = dict(r["options"])
    if o.get("rn"):
        o["rn"] = tuple(o["rn"])
    why, tags, _ = oracle(r["samples"], o)
    print("REPLAY", "FAILS: " + why if why else "passes", sorted(tags))
    return 1 if why else 0
