"""C02 — inferred types are tight: nothing is admitted that no sample exhibited."""
from inspect import isclass

from .. import common, coqterm as ct, gen, impl, pipeline
from ..admits import admits
from . import base

_RN = ()                     # registry (class names, in order) of the case being judged; set by oracle()
MAX_LITERALS, MAX_STRING_LENGTH = 15, 20      # checked against the source by C10_link_MAX_LITERALS / C10_link_MAX_STRING_LENGTH
RN3 = ("IntString", "FloatString", "BooleanString")
RN6 = RN3 + ("IsoDateString", "IsoTimeString", "IsoDatetimeString")


def route(v, t, routed):
    """send the objects inside value v to the models that type them (over-approximation: to every candidate member)"""
    from json_to_models.dynamic_typing import DDict, DList, DOptional, DUnion, ModelPtr
    if isinstance(t, DOptional):
        return route(v, t.type, routed)
    if isinstance(t, DUnion):
        for m in t.types:
            route(v, m, routed)
        return
    if isinstance(t, ModelPtr):
        if isinstance(v, dict) and v:
            m = t.type
            if any(x is v for x in routed.setdefault(m.index, [])):
                return
            routed[m.index].append(v)
            for k, x in v.items():
                if k in m.type:
                    route(x, m.type[k], routed)
        return
    if isinstance(t, DList) and isinstance(v, list):
        for x in v:
            route(x, t.type, routed)
    if isinstance(t, DDict) and isinstance(v, dict):
        for x in v.values():
            route(x, t.type, routed)


def tight(obs, missing, t, why, path):
    """every part of t is justified by an observation among obs (ModelPtr members are judged per model, not here)"""
    from json_to_models.dynamic_typing import (DDict, DList, DOptional, DUnion, ModelPtr, Null, StringLiteral,
                                               StringSerializable, Unknown)
    if isclass(t):
        if issubclass(t, StringSerializable):
            ok = any(isinstance(v, str) and impl.accepts(t, v) for v in obs)
        elif t is int:
            ok = any(isinstance(v, int) and not isinstance(v, bool) for v in obs)
        elif t is float:
            ok = any(isinstance(v, (int, float)) and not isinstance(v, bool) for v in obs)
        elif t is bool:
            ok = any(isinstance(v, bool) for v in obs)
        elif t is str:
            # "string literals overflow to str, several string pseudo-types collapse to str": str needs a REASON among the
            # observed strings: a plain string (one no registered pseudo-type accepts) of length >= MAX_STRING_LENGTH, more than
            # MAX_LITERALS distinct plain strings, or strings detected as two different pseudo-types
            strs = [v for v in obs if isinstance(v, str)]
            cl = impl.pseudo_classes()
            det = {x: next((n for n in _RN if impl.accepts(cl[n], x)), None) for x in set(strs)}
            plain = {x for x, d in det.items() if d is None}
            ok = bool(strs) and (any(len(x) >= MAX_STRING_LENGTH for x in plain) or len(plain) > MAX_LITERALS
                                 or len({d for d in det.values() if d}) >= 2)
            if strs and not ok:
                why.append(f"{path}: str although the {len(plain)} distinct plain string(s) observed there fit a Literal "
                           f"(limits {MAX_LITERALS} / {MAX_STRING_LENGTH}) and at most one pseudo-type was detected")
                return False
        else:
            ok = False
        if not ok:
            why.append(f"{path}: {t.__name__} although no observed value is evidence for it")
        return ok
    if t is Null:
        ok = any(v is None for v in obs)
        if not ok:
            why.append(f"{path}: None although no null was observed")
        return ok
    if t is Unknown:
        why.append(f"{path}: Any outside an element position")
        return False
    if isinstance(t, StringLiteral):
        ok = (not t.overflowed) and t.literals and all(any(v == s and isinstance(v, str) for v in obs) for s in t.literals)
        if not ok:
            why.append(f"{path}: Literal{sorted(t.literals)} lists a string that did not occur (or is overflowed)")
        return bool(ok)
    if isinstance(t, DOptional):
        ok = missing or any(v is None for v in obs)
        if not ok:
            why.append(f"{path}: Optional although the key was never missing and never null")
        return tight(obs, False, t.type, why, path + "?") and ok
    if isinstance(t, DUnion):
        ok = len(t.types) >= 2
        for i, m in enumerate(t.types):
            ok &= tight(obs, False, m, why, f"{path}|{i}")
        return ok
    if isinstance(t, (DList, DDict)):
        if isinstance(t, DList):
            conts = [v for v in obs if isinstance(v, list)]
            elems = [x for c in conts for x in c]
        else:
            conts = [list(v.values()) for v in obs if isinstance(v, dict)]
            elems = [x for c in conts for x in c]
        if not conts:
            why.append(f"{path}: {type(t).__name__} although no such container was observed")
            return False
        x = t.type
        if x is Unknown:
            ok = any(len(c) == 0 for c in conts)
            if not ok:
                why.append(f"{path}: element type Any although no container was observed empty")
            return ok
        if isinstance(x, DOptional) and x.type is Unknown:
            ok = any(len(c) == 0 for c in conts) and any(e is None for e in elems)
            if not ok:
                why.append(f"{path}: element type Optional[Any] without an empty container and a null element")
            return ok
        return tight(elems, False, x, why, path + "[]")
    if isinstance(t, ModelPtr):
        ok = any(isinstance(v, dict) and v for v in obs)
        if not ok:
            why.append(f"{path}: a model although no non-empty object was observed")
        return ok
    if isinstance(t, dict):
        return tight_fields(obs, t, why, path)
    why.append(f"{path}: unexpected type {t!r}")
    return False


def tight_fields(objs, fields, why, path):
    from json_to_models.dynamic_typing import DOptional
    objs = [o for o in objs if isinstance(o, dict)]
    ok = bool(objs)
    if not objs:
        why.append(f"{path}: a model without any routed object")
    for k, t in fields.items():
        vals = [o[k] for o in objs if k in o]
        if not vals:
            why.append(f"{path}.{k}: a field that no routed object has")
            ok = False
            continue
        missing = any(k not in o for o in objs)
        ok &= tight(vals, missing, t, why, f"{path}.{k}")
    return ok


def oracle(samples, o):
    global _RN
    oo = dict(pipeline.DEFAULT_OPTS)
    oo.update(o)
    _RN = tuple(oo["rn"])
    try:
        reg, _ = pipeline.build_registry([("Root", samples)], oo)
    except Exception as e:  # noqa
        return f"registry construction raises {type(e).__name__}: {e}"
    from json_to_models.dynamic_typing import ModelPtr
    roots = [m for m in reg.models if any(p.parent is None for p in m.pointers)]
    if len(roots) != 1:
        return None
    routed = {}
    rootptr = [p for p in roots[0].pointers if p.parent is None][0]
    for s in samples:
        routed.setdefault(roots[0].index, []).append(s)
        for k, x in s.items():
            if k in roots[0].type:
                route(x, roots[0].type[k], routed)
    why = []
    for m in reg.models:
        tight_fields(routed.get(m.index, []), m.type, why, f"{m.name or m.index}")
    return "; ".join(why[:3]) if why else None


def run(chk, build):
    tier = chk.tier
    proofs_ok = base.proof_obligations(chk, build, ["Props/C02.v"], ["Limits"])
    disagreements, oracle_failed = [], False
    n = 500 if tier == "quick" else 20000
    g0 = gen.Gen(chk.seed * 1000003 + 2)
    r = g0.r
    terms, meta = [], []
    corpus = [([{"a": []}, {"a": [None]}], {}), ([{"a": 1}, {"a": 1.5}], {}), ([{"a": "x" * 25}, {"a": "y"}], {}),
              ([{"a": "1"}, {"a": "true"}], {}), ([{"a": {"b": 1}}, {"a": {}}, {}], {})]
    for i in range(n + len(corpus)):
        if i < len(corpus):
            s, o = corpus[i]
            o = dict({"rn": RN3}, **o)
        else:
            dt = r.random() < 0.3
            gg = gen.Gen(r.randrange(10 ** 9), datetime=dt)
            s = gg.literal_heavy() if i % 12 == 5 else gg.family() if i % 12 == 9 else gg.variants() if i % 12 == 3 else gg.pseudo_merge() if i % 12 == 11 else gg.samples(depth=3)
            if i % 8 == 6:
                s = gg.type_twin(s)
            o = {"cmp": r.choice([None, None, [("exact",)], [("percent", 0.5)], [("number", 2)]]), "rn": RN6 if dt else RN3,
                 "dkf": r.choice([None, None, ["a"], ["items", "x"]]), "dkr": r.choice([None, None, ["[ab]"]]),
                 "max_literals": r.choice([10, 0, 3])}
        why = oracle(s, o)
        info = {"samples": s, "options": {k: (list(v) if isinstance(v, tuple) else v) for k, v in o.items()}}
        chk.count(key=repr(s) + repr(info["options"]), sample=info if len(chk.samples) < 2 else None)
        if why:
            oracle_failed |= chk.fail("oracle", info, why)
        res, err, _ = impl.run_generate(s, tuple(o["rn"]), o.get("dkr"), o.get("dkf"))
        terms.append(impl.infer_case_term(s, tuple(o["rn"]), o.get("dkr"), o.get("dkf"), res))
        meta.append(info)
    base.run_view(chk, "Vinfer", "X-infer", terms, meta, disagreements)
    base.run_view(chk, "Vtight", "statement-test(model: generate result is tight)", terms, meta, disagreements,
                  header="From J2M.Views Require Import Vinfer.")
    base.conclude(chk, proofs_ok, disagreements, oracle_failed)


def finish(chk):
    return chk.finish(level="proof",
                      rule="random sample lists (all value kinds, empty containers, null-only containers, strings around the literal limits, "
                           "pseudo-typed strings) x merge policies x dict-key options x literal limits; every field of every model of the "
                           "final registry is judged against the multiset of sample values routed to it")


def replay(chk, path):
    r = base.load_replay(path)
    if "samples" not in r:
        print("replay:", r.get("broken") or r)
        return 1
    o = dict(r["options"])
    if o.get("rn"):
        o["rn"] = tuple(o["rn"])
    if o.get("cmp"):
        o["cmp"] = [tuple(x) for x in o["cmp"]]
    why = oracle(r["samples"], o)
    print("REPLAY", "FAILS: " + why if why else "passes")
    return 1 if why else 0
