"""C13 — dict-field options turn objects into mappings, and only those."""
import copy
import os
import re
import tempfile

from .. import common, coqterm as ct, gen, impl
from ..admits import admits, members
from . import base

RN3 = ("IntString", "FloatString", "BooleanString")
REGEXES = [r"[ab]", r"\w", r"id|name", r"k_\d+", r"a.*", r"(x|y)z?", r"[a-c]+", r"item\d", r".*"]
KEYPOOLS = [["a", "b", "c", "id", "name"], ["k_1", "k_2", "k_x", "a"], ["x", "yz", "xz", "ax"], ["item1", "item2", "items", "id"]]


def expect_dict(obj, named, regexes, anchored):
    if not obj:
        return True
    if named:
        return True
    for r in regexes:
        if all((re.fullmatch(r, k) if anchored else re.match(r, k)) for k in obj):
            return True
    return False


def walk(v, t, named, regexes, dkf, anchored, path, out):
    """v: a JSON value routed to a position typed t.  Appends failure strings to out."""
    from json_to_models.dynamic_typing import DDict, DList, ModelPtr
    if isinstance(v, dict):
        alts = members(t)
        if expect_dict(v, named, regexes, anchored):
            dd = [m for m in alts if isinstance(m, DDict)]
            if not dd:
                out.append(f"{path}: object {list(v)[:4]} should be typed Dict[str, T] but no mapping type is inferred there")
                return
            if not all(admits(x, dd[0].type) for x in v.values()):
                out.append(f"{path}: Dict value type does not admit every value of the object")
            for k, x in v.items():
                walk(x, dd[0].type, False, regexes, dkf, anchored, f"{path}[{k!r}]", out)
        else:
            mm = [m for m in alts if isinstance(m, (dict, ModelPtr))]
            if not mm:
                out.append(f"{path}: object {list(v)[:4]} should be a model but none is inferred there")
                return
            fields = mm[0] if isinstance(mm[0], dict) else mm[0].type.type
            for k, x in v.items():
                if k not in fields:
                    out.append(f"{path}: key {k!r} has no field in the model")
                else:
                    walk(x, fields[k], k in dkf, regexes, dkf, anchored, f"{path}.{k}", out)
    elif isinstance(v, list):
        for m in members(t):
            if isinstance(m, DList):
                for i, x in enumerate(v):
                    walk(x, m.type, False, regexes, dkf, anchored, f"{path}[{i}]", out)
                break


def oracle(samples, dkr, dkf):
    from json_to_models.generator import MetadataGenerator
    g = MetadataGenerator(impl.make_registry(RN3), dict_keys_regex=list(dkr) if dkr else None,
                          dict_keys_fields=list(dkf) if dkf else None)
    try:
        fields = g.generate(*copy.deepcopy(samples))
    except Exception as e:  # noqa
        return f"generate raises {type(e).__name__}: {e}"
    out = []
    for i, s in enumerate(samples):
        # the top-level samples always become models: walk their fields directly
        for k, x in s.items():
            if k not in fields:
                out.append(f"sample {i}: key {k!r} has no field")
            else:
                walk(x, fields[k], k in (dkf or ()), dkr or [], dkf or (), False, f"$[{i}].{k}", out)
    return "; ".join(out[:3]) if out else None


def cli_anchor_oracle(regexes, keys):
    """the patterns the CLI builds from --dkr must behave like re.fullmatch"""
    from json_to_models.cli import Cli
    c = Cli()
    d = tempfile.mkdtemp(dir=common.BUILD)
    try:
        p = os.path.join(d, "in.json")
        open(p, "w").write('{"a": 1}')
        c.parse_args(["-m", "Root", p, "--dkr"] + list(regexes))
    finally:
        import shutil
        shutil.rmtree(d, ignore_errors=True)
    for r, pat in zip(regexes, c.dict_keys_regex):
        for k in keys:
            if bool(pat.match(k)) != bool(re.fullmatch(r, k)):
                return f"--dkr {r!r}: built pattern {pat.pattern!r} gives {bool(pat.match(k))} on key {k!r}, fullmatch gives {bool(re.fullmatch(r, k))}"
    return None


def run(chk, build):
    tier = chk.tier
    proofs_ok = base.proof_obligations(chk, build, ["Props/C13.v"], [])
    disagreements, oracle_failed = [], False
    n = 500 if tier == "quick" else 10000
    r0 = gen.Gen(chk.seed * 1000003 + 13)
    terms, meta = [], []
    corpus = [([{"d": {"ax": 1, "b": 2}}], ["a|b"], None),            # D8 (fixed) at library level: re.match semantics
              ([{"d": {}}, {"d": {"a": 1}}], None, None),
              ([{"f": {"x": 1}}, {"f": {"y": "s"}}], None, ["f"])]
    for i in range(n + len(corpus)):
        if i < len(corpus):
            s, dkr, dkf = corpus[i]
        else:
            g = gen.Gen(r0.r.randrange(10 ** 9), keys=r0.r.choice(KEYPOOLS))
            s = g.samples(depth=3)
            dkr = r0.r.choice([None, None] + [[x] for x in REGEXES] + [[REGEXES[0], REGEXES[3]], [REGEXES[2], REGEXES[5]]])
            dkf = r0.r.choice([None, None, ["a"], ["id", "x"], ["items", "k_1"], ["yz"]])
        why = oracle(s, dkr, dkf)
        info = {"samples": s, "dkr": dkr, "dkf": dkf}
        res, err, _ = impl.run_generate(s, RN3, dkr, dkf)
        chk.count(key=(ct.pyty(res) if res is not None else err, repr(dkr), repr(dkf)), sample=info if len(chk.samples) < 3 else None)
        if why:
            oracle_failed |= chk.fail("oracle", info, why)
        terms.append(impl.infer_case_term(s, RN3, dkr, dkf, res))
        meta.append(info)
    # command-line anchoring (D8, fixed): every regex of the pool against every key of the pools
    keys = sorted({k for p in KEYPOOLS for k in p} | {"", "ab", "ba", "idx", "xid", "name1"})   # keys ending in a newline are left out: "$" also matches before a final newline, which "anchored" does not exclude
    why = cli_anchor_oracle(REGEXES, keys)
    chk.count(key="cli-anchor", sample={"regexes": REGEXES, "keys": keys})
    if why:
        oracle_failed |= chk.fail("oracle", {"regexes": REGEXES, "keys": keys, "cli_anchor": True}, why)
    base.run_view(chk, "Vinfer", "X-infer", terms, meta, disagreements)
    base.conclude(chk, proofs_ok, disagreements, oracle_failed)


def finish(chk):
    return chk.finish(level="proof",
                      rule="random sample lists over key pools chosen to match the regex pool partially x regex lists (character "
                           "classes, alternation, groups, quantifiers) x field-name lists; distinct = distinct (inferred result, options)")


def replay(chk, path):
    r = base.load_replay(path)
    if r.get("cli_anchor"):
        why = cli_anchor_oracle(r["regexes"], r["keys"])
    elif "samples" in r:
        why = oracle(r["samples"], r.get("dkr"), r.get("dkf"))
    else:
        print("replay names a broken obligation / view:", r.get("broken"))
        return 1
    print("REPLAY", "FAILS: " + why if why else "passes")
    return 1 if why else 0
