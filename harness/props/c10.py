"""C10 — Literal annotations follow the documented limits and hold exact values."""
import typing

from .. import common, coqterm as ct, emitcase, impl, pipeline
from . import base

RN3 = ("IntString", "FloatString", "BooleanString")
SPECIAL = ['q"uote', "back\\slash", "new\nline", "a,b", "it's", "été", "中文", "\U0001F600x", "tab\there", "br]ack[et", "sp ace",
           "\\n", '\\"', " ", "per%cent", "{curly}", "#hash", "\x7f", "\x01"]


def string_set(n, variant, salt):
    """n distinct plain (not pseudo-typed) strings; variant: 'short' | 19 | 20 | 21 (length of one of them)"""
    out = []
    i = 0
    while len(out) < n:
        if i < len(SPECIAL) and (i + salt) % 2 == 0:
            s = SPECIAL[i]
        else:
            s = f"v{salt}_{i}"
        if s not in out:
            out.append(s)
        i += 1
    if variant != "short" and out:
        out[-1] = ("L" * int(variant))
    return out


def literal_args(tp):
    """all Literal[...] argument tuples inside an evaluated annotation"""
    found = []
    if typing.get_origin(tp) is typing.Literal:
        found.append(tuple(typing.get_args(tp)))
    else:
        for a in typing.get_args(tp):
            found += literal_args(a)
    return found


def build_samples(strings, extra, rep=0):
    """one object per string; rep > 0 repeats the first `rep` strings after the others (the set stays the same,
    the number of DUnion constructions that see overlapping literal sets does not)"""
    return [{"f": s} for s in strings] + [{"f": e} for e in extra] + [{"f": s} for s in strings[:rep]]


def oracle(strings, extra, fw, maxlit, rep=0):
    """-> (failure or None, code or None)"""
    samples = build_samples(strings, extra, rep)
    try:
        code, reg = pipeline.run(samples, fw=fw, max_literals=maxlit, rn=RN3)
    except Exception as e:  # noqa
        return f"pipeline raises {type(e).__name__}: {e}", None
    try:
        m = pipeline.load(code)
    except Exception as e:  # noqa
        return f"emitted module does not load: {type(e).__name__}: {e}", code
    try:
        hints = typing.get_type_hints(m.Root, m.__dict__)
        lits = literal_args(hints["f"])
    finally:
        pipeline.unload(m)
    plain = [s for s in strings]
    # strings of `extra` that no pseudo-type accepts are plain as well
    cl = impl.pseudo_classes()
    pseudo_hits = set()
    for e in extra:
        if isinstance(e, str):
            acc = [n for n in RN3 if impl.accepts(cl[n], e)]
            if acc:
                pseudo_hits.add(acc[0])
            else:
                plain.append(e)
    generalised = len(pseudo_hits - {"IntString"}) > 1 or (pseudo_hits == {"IntString", "BooleanString"})
    generalised = generalised or ("BooleanString" in pseudo_hits and len(pseudo_hits) > 1)
    S = set(plain)
    within = all(len(s) < 20 for s in S) and len(S) <= 15 and len(S) < maxlit and fw != "attrs" and maxlit > 0
    if lits and not within:
        return f"Literal{lits} although the limits forbid it (|S|={len(S)}, max={maxlit}, fw={fw})", code
    if len(lits) > 1:
        return f"several Literal annotations at one position: {lits}", code
    if lits and set(lits[0]) != S:
        return f"Literal lists {sorted(map(repr, lits[0]))}, observed plain strings are {sorted(map(repr, S))}", code
    if within and not generalised and S and not lits:
        return f"no Literal although every limit is met (|S|={len(S)}, max={maxlit}, fw={fw}); annotation {hints['f']!r}", code
    return None, code


def run(chk, build):
    tier = chk.tier
    proofs_ok = base.proof_obligations(chk, build, ["Props/C10.v"], ["Limits"])
    disagreements, oracle_failed = [], False
    sizes = [1, 2, 9, 10, 11, 14, 15, 16, 17]
    variants = ["short", 19, 20, 21]
    extras = [[], [], ["1"], ["1", "2.5"], ["1", "true"], [1, None], ["true", "plain"]]
    cases = []
    salt = chk.seed
    for fw in pipeline.FRAMEWORKS:
        for n in sizes:
            for v in variants:
                for ml in sorted({0, 1, 2, n, n + 1, 10, 15, 16, 17}):
                    salt += 1
                    if tier == "quick" and (salt % 3) and not (n in (15, 16) or ml in (0, n, n + 1) or v in (19, 20)):
                        continue
                    cases.append((string_set(n, v, salt % 7), extras[salt % len(extras)], fw, ml, [0, 1, n // 2, n][salt % 4]))
    # corpus: D11 (fixed) — characters outside the BMP
    cases.insert(0, (["\U0001F600", "é"], [], "pydantic", 10, 0))
    eterms, emeta = [], []
    iterms, imeta = [], []
    # something else the process did before: generators with DIFFERENT literal options were created (and are still alive).
    # The options of one generator must not reach another: the cases below are judged as if nothing had happened.
    try:
        from json_to_models.dynamic_typing import StringLiteral
        reg0, _ = pipeline.build_registry([("Root", [{"f": "a"}])], dict(pipeline.DEFAULT_OPTS, rn=RN3))
        model0 = list(reg0.models)[0]
        off = {StringLiteral: {StringLiteral.TypeStyle.use_literals: False}}
        on = {StringLiteral: {StringLiteral.TypeStyle.use_literals: True}}
        chk.notes["generators_kept_alive"] = 0
        keep = []
        for fw0, style0, ml0 in (("base", off, 0), ("dataclasses", off, 0), ("pydantic", off, 0), ("attrs", on, 16)):
            keep.append(pipeline.generator_class(fw0)(model0, max_literals=ml0, types_style=style0))
            chk.notes["generators_kept_alive"] += 1
    except Exception as e:  # noqa
        chk.notes["generators_kept_alive"] = f"could not construct: {type(e).__name__}: {e}"
    for strings, extra, fw, ml, rep in cases:
        why, code = oracle(strings, extra, fw, ml, rep)
        info = {"strings": strings, "extra": extra, "fw": fw, "max_literals": ml, "repeat": rep}
        chk.count(key=(fw, ml, len(strings), max(map(len, strings)), repr(extra), rep), sample=info if len(chk.samples) < 3 else None)
        if why:
            oracle_failed |= chk.fail("oracle", info, why)
        samples = build_samples(strings, extra, rep)
        # X-infer (the IR) and X-emit (the annotation bytes) on the same inputs
        if fw == "pydantic":
            res, err, _ = impl.run_generate(samples, RN3)
            iterms.append(impl.infer_case_term(samples, RN3, None, None, res))
            imeta.append(info)
        o = dict(pipeline.DEFAULT_OPTS, fw=fw, max_literals=ml, rn=RN3)
        try:
            reg, _ = pipeline.build_registry([("Root", samples)], o)
            t, text, err = emitcase.emit_case(reg, o)
            eterms.append(t)
            emeta.append(info)
        except Exception as e:  # noqa
            disagreements.append({"view": "X-emit", "error": f"harness: {type(e).__name__}: {e}", **info})
    base.run_view(chk, "Vinfer", "X-infer", iterms, imeta, disagreements)
    base.run_view(chk, "Vemit", "X-emit", eterms, emeta, disagreements, shard=60, header=base.EMIT_HEADER)
    base.conclude(chk, proofs_ok, disagreements, oracle_failed)


def finish(chk):
    return chk.finish(level="proof",
                      rule="boundary stream: string sets of 1..17 members (escape-heavy alphabet, one member of length 19/20/21) x "
                           "max-literals around the set size and the hard limits x 5 frameworks x other value kinds at the "
                           "position x repetition of 0 / 1 / half / all of the strings (overlapping literal sets); distinct = distinct "
                           "(framework, limit, set size, longest string, extra values, repetition)")


def replay(chk, path):
    r = base.load_replay(path)
    if "strings" not in r:
        print("replay names a broken obligation / view:", r.get("broken"))
        return 1
    why, code = oracle(r["strings"], r.get("extra", []), r["fw"], r["max_literals"], r.get("repeat", 0))
    print("REPLAY", "FAILS: " + why if why else "passes")
    return 1 if why else 0
