"""C01 — generated models accept every sample they were inferred from."""
import copy

from .. import common, coqterm as ct, emitcase, gen, impl, pipeline, shrink, validate
from . import base

RN3 = ("IntString", "FloatString", "BooleanString")
RN6 = RN3 + ("IsoDateString", "IsoTimeString", "IsoDatetimeString")
CORPUS = [
    ([{"a": []}, {"a": [None]}], {}),                                                        # D1
    ([{"a": "1"}, {"a": "1.5"}, {"a": "true"}], {}),                                         # D2
    ([{"p": [{"x": 1, "y": 1}, {"y": 1}], "q": {"x": 1, "y": 2}}], {}),                      # D3
    ([{"q": {"x": 1, "y": 2}, "p": [{"x": 1, "y": 1}, {"y": 1}]}], {}),                      # D3, other order
    ([{"phone": "12345678901-2"}], {"rn": RN6}),                                             # D22
    ([{"a": {"b": {"c": [1, "x", None]}}}, {"a": {"b": {}}}, {"a": None}], {"structure": "nested"}),
]


def label_fn(fw, cu):
    from json_to_models.models.base import prepare_label

    def f(k):
        if fw == "sqlmodel" and k in ("id", "pk"):
            return k
        try:
            return prepare_label(k, convert_unicode=cu, to_snake_case=True)
        except IndexError:
            return None
    return f


def intrinsic_date_mismatch(sample, rn):
    """D18 is about ONE string: the dateutil-based class that detects it (first accepting class in registry order) says
    date / time / datetime, and pydantic's own parser for that very type rejects it.  A rejection that does not come from
    such a string (e.g. a date-only string in a field resolved to datetime) is NOT the listed finding."""
    from pydantic.v1 import datetime_parse as dp
    parsers = {"IsoDateString": dp.parse_date, "IsoTimeString": dp.parse_time, "IsoDatetimeString": dp.parse_datetime}
    cl = impl.pseudo_classes()
    for x in gen.all_strings(sample):
        first = next((n for n in rn if impl.accepts(cl[n], x)), None)
        if first in parsers:
            try:
                parsers[first](x)
            except Exception:  # noqa
                return True
    return False


def replace_pair_cases():
    """targeted search: for every replace pair (a -> b) the package registers NOW, one field holding a string of a and a
    string of b; if b does not accept what a accepts, some generated model rejects its own sample"""
    pools = {"IntString": gen.INTS, "FloatString": gen.FLOATS, "BooleanString": gen.BOOLS, "IsoDateString": gen.DATES,
             "IsoTimeString": gen.TIMES, "IsoDatetimeString": gen.DATETIMES}
    out = []
    for a, b in impl.live_replaces():
        rn = RN6 if (a.startswith("Iso") or b.startswith("Iso")) else RN3
        for sa in pools.get(a, [])[:4]:
            for sb in pools.get(b, [])[:2]:
                for fw in ("pydantic", "attrs"):
                    out.append(([{"f": sa}, {"f": sb}], {"rn": rn, "fw": fw}))
    return out


def oracle(samples, o):
    """-> (failure, tags)"""
    try:
        oo = dict(pipeline.DEFAULT_OPTS)
        oo.update(o)
        reg, _ = pipeline.build_registry([(oo["root_name"], samples)], oo)
        if oo["structure"] == "nested" and not pipeline.tree_shaped(reg):
            oo["structure"] = "flat"           # the nested layout is claimed for tree-shaped model graphs only (C03, C12)
        code = pipeline.render(reg, oo)
    except Exception as e:  # noqa
        return f"pipeline raises {type(e).__name__}: {e}", set()
    try:
        m = pipeline.load(code)
    except Exception as e:  # noqa
        return f"emitted module does not load: {type(e).__name__}: {str(e)[:200]}", {"load"}
    try:
        fw = o.get("fw", "pydantic")
        root = getattr(m, "Root", None)
        if root is None:
            return "no class Root in the emitted module", set()
        if fw in ("pydantic", "sqlmodel"):
            for i, s in enumerate(samples):
                try:
                    root.parse_obj(copy.deepcopy(s))
                except Exception as e:  # noqa
                    full = str(e).replace("\n", " ")       # classification reads the whole text: inside a Union the date error comes late
                    msg = full[:300]
                    tags = set()
                    none_container = "List[None]" in code or "Dict[str, None]" in code
                    if none_container and any(x in msg for x in ("none is not an allowed value", "value is not a valid list",
                                                                 "value is not a valid dict")):
                        tags.add("pydantic-optional-list-of-none")
                    if any(x in full for x in ("invalid date format", "invalid time format", "invalid datetime format",
                                              "invalid date", "invalid time", "invalid datetime")) \
                            and intrinsic_date_mismatch(s, oo["rn"]):
                        tags.add("pydantic-date-grammar")
                    return f"sample {i} rejected by Root.parse_obj: {msg}", tags
            return None, set()
        lf = label_fn(fw, o.get("unidecode", True))
        v = validate.Validator(m, fw, lf)
        for i, s in enumerate(samples):
            v.obj(s, root, f"$[{i}]")
            if v.errors:
                tags = set()
                if fw == "base":
                    # the base framework has no defaults at all: if that is the only problem it is the listed finding
                    v2 = validate.Validator(m, fw, lf, optional_is_default=True)
                    if all(v2.obj(x, root, "$") for x in samples):
                        tags.add("base-no-defaults")
                return v.errors[0], tags
        return None, set()
    finally:
        pipeline.unload(m)


def options(r, i, tier):
    o = {}
    if tier == "quick" and i % 3 == 0:
        o["fw"] = "pydantic"
    else:
        o["fw"] = r.choice(pipeline.FRAMEWORKS)
    o["structure"] = r.choice(["flat", "flat", "nested"])
    o["cmp"] = r.choice([None, None, [("exact",)], [("percent", 0.5)], [("number", 2)], [("percent", 0.7), ("number", 3)]])
    o["rn"] = r.choice([RN3, RN3, RN6, ("FloatString", "IntString"), ()])
    o["dkr"] = r.choice([None, None, None, ["[ab]"], [r"\w"]])
    o["dkf"] = r.choice([None, None, None, ["a"], ["items", "x"]])
    o["max_literals"] = r.choice([10, 10, 0, 1, 3, 16])
    return o


def run(chk, build):
    tier = chk.tier
    proofs_ok = base.proof_obligations(chk, build, ["Props/C01.v"], ["Limits", "StrReg"])
    disagreements, oracle_failed = [], False
    n = 500 if tier == "quick" else 20000
    g0 = gen.Gen(chk.seed * 1000003 + 1)
    iterms, imeta, rterms, rmeta, eterms, emeta = [], [], [], [], [], []
    corpus = CORPUS + replace_pair_cases()
    for i in range(n + len(corpus)):
        if i < len(corpus):
            s, o = corpus[i]
            o = dict(o)
        else:
            o = options(g0.r, i, tier)
            g = gen.Gen(g0.r.randrange(10 ** 9), datetime="IsoDateString" in o["rn"])
            s = g.literal_heavy() if i % 16 == 7 else g.family() if i % 16 == 11 else g.variants() if i % 16 == 3 else g.samples(depth=3)
        if i >= len(corpus) and i % 8 == 5:
            s = g.type_twin(s)
        why, tags = oracle(s, o)
        info = {"samples": s, "options": {k: (list(v) if isinstance(v, tuple) else v) for k, v in o.items()}}
        chk.count(key=(repr(s), repr(sorted(info["options"].items()))), sample=info if len(chk.samples) < 3 else None)
        if why:
            def still(x, o=o, tags=tags):
                w, t = oracle(x, o)
                return w is not None and t == tags
            small = shrink.shrink_samples(s, still, budget=150)
            w2, t2 = oracle(small, o)
            oracle_failed |= chk.fail("oracle", dict(info, samples=small), w2 or why, tags=t2 or tags)
        # ties: the IR, the registry, the emitted bytes
        oo = dict(pipeline.DEFAULT_OPTS)
        oo.update(o)
        res, err, G = impl.run_generate(s, tuple(oo["rn"]), oo["dkr"], oo["dkf"])
        iterms.append(impl.infer_case_term(s, tuple(oo["rn"]), oo["dkr"], oo["dkf"], res))
        imeta.append(info)
        if res is not None:
            roots_terms = [(ct.cfields(res), "Root")]
            out = impl.run_registry([(res, "Root")], oo["cmp"], gen=G)
            if len(out["pairs"]) <= 12:
                rterms.append(impl.registry_case_term(roots_terms, tuple(oo["rn"]), out))
                rmeta.append(info)
            if i % 2 == 0 and out["error"] is None:
                try:
                    out["reg"].generate_names()
                    t, text, e = emitcase.emit_case(out["reg"], oo)
                    eterms.append(t)
                    emeta.append(info)
                except Exception as e:  # noqa
                    disagreements.append(dict(info, view="X-emit", error=f"harness: {type(e).__name__}: {e}"))
    base.run_view(chk, "Vinfer", "X-infer", iterms, imeta, disagreements)
    base.run_view(chk, "Vregistry", "X-registry", rterms, rmeta, disagreements)
    base.run_view(chk, "Vemit", "X-emit", eterms, emeta, disagreements, shard=50, header=base.EMIT_HEADER)
    base.conclude(chk, proofs_ok, disagreements, oracle_failed)


def finish(chk):
    return chk.finish(level="proof",
                      rule="corpus of minimised defects first; random sample lists (all value kinds, nesting to depth 3, keys from a "
                           "small pool) x 5 frameworks x flat/nested x merge policies x dict-key options x registry contents x literal "
                           "limits; distinct = distinct (samples, options)")


def replay(chk, path):
    r = base.load_replay(path)
    if "samples" not in r:
        print("replay names a broken obligation / view:", r.get("broken"))
        return 1
    o = dict(r.get("options", {}))
    if "rn" in o:
        o["rn"] = tuple(o["rn"])
    if o.get("cmp"):
        o["cmp"] = [tuple(x) for x in o["cmp"]]
    why, tags = oracle(r["samples"], o)
    print("REPLAY", "FAILS: " + why if why else "passes", sorted(tags))
    return 1 if why else 0
