"""C11 — JSON keys survive renaming: distinct keys give distinct, recoverable fields."""
import copy
import re

from .. import common, names
from . import base, emitprops

WANT = ("classes", "fields", "keys", "load")


def wide_key(r):
    """wide alphabet, at least one ASCII-transliterable letter"""
    from unidecode import unidecode
    for _ in range(20):
        k = names.random_key(r)
        if re.search(r"[A-Za-z]", unidecode(k)) and "²" not in k:
            return k
    return "key"


def classify(kind, msg, tags, o):
    out = set()
    if kind in ("load", "import-shadow", "classes", "render", "keys", "fields"):
        for t in ("class-shadows-import", "field-shadows-import", "pydantic-reserved-key", "attrs-reserved-key"):
            if t in tags:
                out.add(t)
    if kind in ("classes", "load", "types", "keys", "fields") and "class-names-collapse" in tags:
        out.add("class-names-collapse")
    if kind == "render" and "empty-label" in tags:
        out.add("empty-label")
    if kind in ("digit-spelled-collision", "folded-collision"):
        out.add(kind)
    if kind in ("fields", "load", "keys") and "non-identifier-key-char" in tags:
        out.add("non-identifier-key-char")
    if kind in ("keys", "fields", "load") and "leading-underscore" in tags:
        out.add("leading-underscore")
    if kind in ("nfkc-renamed", "field-equals-class-name"):
        out.add(kind)
    return out


def run(chk, build):
    emitprops.drive(chk, build, "Props/C11.v", ["Labels"], wide_key, WANT, classify, 400, 10000)
    # X-names: prepare_label / underscore / camelize on single keys
    r = emitprops.gen.Gen(chk.seed * 7 + 11).r
    terms, meta = [], []
    for i in range(1500 if chk.tier == "quick" else 20000):
        s = names.random_key(r)
        cu, snake = r.random() < 0.5, r.random() < 0.6
        t, lab = names.label_case(s, cu, snake)
        terms.append(t)
        meta.append({"key": s, "cu": cu, "snake": snake})
        chk.count(key=("label", s, cu, snake))
    # X-names(registry): generate_names / fix_name_duplicates on multi-root registries
    from json_to_models.generator import MetadataGenerator
    from json_to_models.registry import ModelRegistry
    from .. import emitcase, gen as genmod, impl
    gterms, gmeta = [], []
    for i in range(150 if chk.tier == "quick" else 2000):
        keys = [names.random_key(r) for _ in range(6)] if r.random() < 0.4 else None
        g = MetadataGenerator(impl.make_registry())
        rootnames = r.sample(["Root", "Item", "Items", "Value", "User", "A", "Order", "Child", "Name"], r.choice([1, 1, 2, 3]))
        ss = []
        spec = r.choice([None, [("exact",)], [("number", 2)], [("percent", 0.5)]])
        reg = ModelRegistry(*impl.make_cmp(spec))
        try:
            if i == 0:      # corpus: D33 (fixed)
                rootnames, ss = ["A", "A_1B"], [[{"a": {"x": 1}}], [{"y": "s"}]]
            else:
                ss = [genmod.Gen(r.randrange(10 ** 9), keys=keys).samples(depth=3) for _ in rootnames]
                if r.random() < 0.5:
                    # a further root explicitly named like a de-duplicated model of a first run: <name>_<index> (D33)
                    reg0 = ModelRegistry(*impl.make_cmp(spec))
                    g0 = MetadataGenerator(impl.make_registry())
                    with common.time_limit(20):
                        for rn, s in zip(rootnames, ss):
                            reg0.process_meta_data(g0.generate(*copy.deepcopy(s)), rn)
                        reg0.merge_models(g0)
                    reg0.generate_names()
                    cands = [m.name for m in reg0.models if m.is_name_generated and m.name and m.name.endswith("_" + m.index)]
                    if cands:
                        rootnames = rootnames + [r.choice(cands)]
                        ss.append(genmod.Gen(r.randrange(10 ** 9), keys=keys).samples(depth=2))
            with common.time_limit(20):
                for rn, s in zip(rootnames, ss):
                    reg.process_meta_data(g.generate(*copy.deepcopy(s)), rn)
                reg.merge_models(g)
            gterms.append(emitcase.gennames_case(reg))
            gmeta.append({"roots": [[n, x] for n, x in zip(rootnames, ss)]})
            chk.count(key=("gennames", repr(rootnames), repr(ss)))
            nm = [m.name for m in reg.models]
            if len(set(nm)) != len(nm):
                chk.fail("oracle", gmeta[-1], f"two models share the class name {[n for n in nm if nm.count(n) > 1][0]!r} after generate_names")
        except (IndexError, TimeoutError):
            continue
    gdis = []
    base.run_view(chk, "Vgennames", "X-names(registry)", gterms, gmeta, gdis, shard=50)
    if gdis and not chk.violations:
        chk.fail_nowitness("X-names(registry)", {"disagreements": gdis[:5]})
    bad = names.oracle_hypotheses()
    chk.obligation("oracle premises of the label theorems hold for str.lower / re \\w / unidecode over every code point", not bad, "; ".join(bad[:3]))
    if bad:
        chk.fail_nowitness("oracle premises of Props/C11.v: " + "; ".join(bad[:3]))
    dis = []
    base.run_view(chk, "Vnames", "X-names", terms, meta, dis, shard=200)
    if dis and not chk.violations:
        chk.fail_nowitness("X-names", {"disagreements": dis[:5]})


def finish(chk):
    return chk.finish(level="proof",
                      rule="objects whose keys are drawn from a wide alphabet (quotes, backslashes, hyphens, keywords, builtin names, cased and "
                           "uncased non-ASCII letters, digits of several scripts) and are pairwise distinct after case/punctuation folding, "
                           "with and without unicode transliteration x 5 frameworks; plus single keys through X-names")


def replay(chk, path):
    return emitprops.replay_emit(chk, path, WANT, classify)
