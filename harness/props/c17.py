"""C17 — a failing run reports failure and leaves existing output untouched; a successful run writes the complete text."""
import json

from .. import clirun, common
from . import base

GOOD = [{"a": 1, "b": {"c": "x"}}, {"a": 2}]
OLD = b"OLD CONTENT \xe2\x9c\x93 keep me\n"


def fault_cases():
    """(kind, position) -> description of files + argv (relative names)"""
    kinds = {
        "missing-file": lambda: ({}, ["-m", "Root", "nope.json"]),
        "missing-file-yaml": lambda: ({}, ["-i", "yaml", "-m", "Root", "nope.yaml"]),
        "missing-file-ini": lambda: ({}, ["-i", "ini", "-m", "Root", "nope.ini"]),
        "directory-as-file-ini": lambda: ({"dir.ini/x": "1"}, ["-i", "ini", "-m", "Root", "dir.ini"]),
        # reached through a PATTERN: an entry that exists in the directory but can not be read as a file
        "pattern-with-dangling-symlink": lambda: ({"part_1.json": json.dumps(GOOD), "part_2.json": ("symlink", "no-such-target.json")},
                                                  ["-m", "Root", "part_*.json"]),
        "pattern-with-directory": lambda: ({"part_1.json": json.dumps(GOOD), "part_2.json/inner.txt": "x"}, ["-m", "Root", "part_*.json"]),
        "malformed-json": lambda: ({"bad.json": '{"a": 1,,}'}, ["-m", "Root", "bad.json"]),
        "empty-file": lambda: ({"bad.json": ""}, ["-m", "Root", "bad.json"]),
        "malformed-yaml": lambda: ({"bad.yaml": "a: [1, 2\nb: }"}, ["-i", "yaml", "-m", "Root", "bad.yaml"]),
        "malformed-ini": lambda: ({"bad.ini": "no section header\nx = 1\n"}, ["-i", "ini", "-m", "Root", "bad.ini"]),
        "wrong-lookup": lambda: ({"f.json": '{"a": {"b": [{"x": 1}]}}'}, ["-m", "Root", "a.c", "f.json"]),
        "lookup-scalar": lambda: ({"f.json": '{"a": {"b": 5}}'}, ["-m", "Root", "a.b", "f.json"]),
        "root-scalar": lambda: ({"f.json": "42"}, ["-m", "Root", "f.json"]),
        "root-null": lambda: ({"f.json": "null"}, ["-m", "Root", "f.json"]),
        "root-false": lambda: ({"f.json": "false"}, ["-m", "Root", "f.json"]),
        "root-empty-string": lambda: ({"f.json": '""'}, ["-m", "Root", "f.json"]),
        "lookup-null": lambda: ({"f.json": '{"a": {"b": null}}'}, ["-m", "Root", "a.b", "f.json"]),
        "lookup-zero": lambda: ({"f.json": '{"a": {"b": 0}}'}, ["-m", "Root", "a.b", "f.json"]),
        "lookup-false": lambda: ({"f.json": '{"a": false}'}, ["-m", "Root", "a", "f.json"]),
        "lookup-empty-string": lambda: ({"f.json": '{"a": ""}'}, ["-l", "Root", "a", "f.json"]),
        "empty-yaml-document": lambda: ({"f.yaml": "# nothing here\n"}, ["-i", "yaml", "-m", "Root", "f.yaml"]),
        "list-with-scalar-sample": lambda: ({"f.json": '[{"a": 1}, 0]'}, ["-m", "Root", "f.json"]),
        "list-with-null-sample": lambda: ({"f.json": '[null, {"a": 1}]'}, ["-m", "Root", "f.json"]),
        "non-object-sample": lambda: ({"f.json": "[1, 2, 3]"}, ["-m", "Root", "f.json"]),
        "non-string-keys": lambda: ({"f.yaml": "- {1: a, 2: b}\n"}, ["-i", "yaml", "-m", "Root", "f.yaml"]),
        "bad-merge-policy": lambda: ({"g.json": json.dumps(GOOD)}, ["-m", "Root", "g.json", "--merge", "nonsense"]),
        "bad-merge-argument": lambda: ({"g.json": json.dumps(GOOD)}, ["-m", "Root", "g.json", "--merge", "percent_abc"]),
        "custom-without-generator": lambda: ({"g.json": json.dumps(GOOD)}, ["-m", "Root", "g.json", "-f", "custom"]),
        "generator-without-custom": lambda: ({"g.json": json.dumps(GOOD)}, ["-m", "Root", "g.json", "--code-generator", "x.Y"]),
        "custom-generator-import-error": lambda: ({"g.json": json.dumps(GOOD)}, ["-m", "Root", "g.json", "-f", "custom", "--code-generator", "no_such_module.Gen"]),
        "unknown-framework": lambda: ({"g.json": json.dumps(GOOD)}, ["-m", "Root", "g.json", "-f", "nonsense"]),
        "bad-regex": lambda: ({"g.json": json.dumps(GOOD)}, ["-m", "Root", "g.json", "--dkr", "(unclosed"]),
        "generator-exception-empty-label": lambda: ({"g.json": '[{"-": 1}]'}, ["-m", "Root", "g.json"]),
        "generator-exception-converters": lambda: ({"g.json": '[{"a": {"b": 1}, "-": 2}]'}, ["-m", "Root", "g.json", "-f", "attrs", "--strings-converters"]),
        # a generator exception while the reference-path context is non-empty (nested layout, a child shared by two parents)
        "generator-exception-nested-shared-child": lambda: ({"s.json": json.dumps([{"customer": {"address": {"zip": 1, "city": "x"}, "n": 1},
                                                                                    "warehouse": {"address": {"zip": 2, "city": "y"}, "m": 2.5}}])},
                                                            ["-m", "Order", "s.json", "-s", "nested", "-f", "pydantic", "--code-generator-kwargs", "max_literals=many"]),
        "bad-max-literals": lambda: ({"g.json": json.dumps(GOOD)}, ["-m", "Root", "g.json", "--max-strings-literals", "many"]),
        "unencodable-argv": lambda: ({"g.json": json.dumps(GOOD)}, ["-m", "Root", "g.json", "--preamble", "x = '\udcff'"]),
        # the un-encodable text reaches ONLY the header (argv is echoed there), not the module body
        "unencodable-argv-header-only": lambda: ({"g.json": json.dumps(GOOD)}, ["-m", "Root", "g.json", "--dkf", "caf\udcff"]),
        "unencodable-json-string": lambda: ({"g.json": '[{"a": "\\ud800x"}]'}, ["-m", "Root", "g.json"]),
        "model-arg-arity": lambda: ({"g.json": json.dumps(GOOD)}, ["-m", "Root"]),
    }
    out = []
    for kind, mk in kinds.items():
        for position in ("only", "first", "middle", "last"):
            for existing in (True, False):
                out.append((kind, position, existing))
    return kinds, out


def one(case):
    kinds, (kind, position, existing) = case
    files, argv = kinds[kind]()
    sb = clirun.Sandbox("c17")
    try:
        for n, t in files.items():
            if isinstance(t, tuple) and t[0] == "symlink":
                import os
                os.symlink(t[1], os.path.join(sb.dir, n))
            else:
                sb.write(n, t)
        sb.write("ok1.json", json.dumps(GOOD))
        sb.write("ok2.json", json.dumps([{"z": [1, 2]}]))
        good1, good2 = ["-m", "Other", "ok1.json"], ["-m", "Third", "ok2.json"]
        if position == "first":
            argv = argv + good1 + good2 if argv[0] != "-i" else argv + good1 + good2
        elif position == "middle":
            argv = good1 + argv + good2
        elif position == "last":
            argv = good1 + good2 + argv
        if "-i" in argv and argv[argv.index("-i") + 1] in ("yaml", "ini"):
            # the other files of this run must be readable by the same loader: JSON is YAML; for ini use an ini file
            if argv[argv.index("-i") + 1] == "ini":
                sb.write("ok1.json", "[s]\na = 1\n")
                sb.write("ok2.json", "[t]\nb = 2\n")
        if existing:
            sb.write("out.py", OLD, mode="wb")
        rc, out, err = clirun.run_cli(argv + ["-o", "out.py"], sb.dir)
        after = sb.read("out.py")
        why = None
        if rc == 0:
            why = "exit status 0"
        elif "class " in out:
            why = "model code printed on stdout"
        elif existing and after != OLD:
            why = f"existing output file changed (now {after[:40]!r})"
        elif not existing and after is not None:
            why = f"output file created ({after[:40]!r})"
        # the same run without -o must fail too and print no code (except where the fault is the encoding of the -o file:
        # stdout may use another error handler, and printing can legitimately succeed)
        rc2, out2, err2 = clirun.run_cli(argv, sb.dir)
        if kind.startswith("unencodable"):
            rc2, out2 = 1, ""
        if why is None and rc2 == 0:
            why = "exit status 0 without -o"
        if why is None and "class " in out2:
            why = "model code printed on stdout (no -o)"
        return kind, position, existing, why, {"argv": argv, "files": files, "rc": rc, "stderr_tail": err[-200:]}
    finally:
        sb.close()


def success_case(i):
    sb = clirun.Sandbox("c17s")
    try:
        sb.write("a.json", json.dumps(GOOD))
        fw = ["base", "pydantic", "attrs", "dataclasses"][i % 4]
        argv = ["-m", "Root", "a.json", "-f", fw] + (["-s", "nested"] if i % 2 else [])
        existing = i % 3 == 0
        if existing:
            sb.write("out.py", OLD, mode="wb")
        rc, out, err = clirun.run_cli(argv + ["-o", "out.py"], sb.dir)
        rc2, out2, err2 = clirun.run_cli(argv, sb.dir)
        written = sb.read("out.py")
        why = None
        if rc != 0 or rc2 != 0:
            why = f"successful run exits {rc}/{rc2}: {err[-200:]}"
        elif written is None:
            why = "no output file written"
        else:
            h1, body1 = clirun.strip_header(written.decode("utf8"))
            h2, body2 = clirun.strip_header(out2)
            if body1 + "\n" != body2:       # print() adds a newline
                why = "file content differs from what is printed without -o"
            elif "class Root" not in body1:
                why = "written text is not the complete module"
            elif "Output is written to" not in out or "class " in out:
                why = "stdout of the -o run is not the confirmation message"
        return "success", fw, existing, why, {"argv": argv, "rc": rc}
    finally:
        sb.close()


def run(chk, build):
    proofs_ok = base.proof_obligations(chk, build, ["Props/C17.v"], ["Cli"])
    kinds, cases = fault_cases()
    oracle_failed = False
    res = clirun.parallel(one, [(kinds, c) for c in cases])
    for kind, position, existing, why, info in res:
        chk.count(key=(kind, position, existing), sample={"fault": kind, "position": position, "existing_output": existing, "argv": info["argv"]} if len(chk.samples) < 3 else None)
        if why:
            oracle_failed |= chk.fail("oracle", {"fault": kind, "position": position, "existing_output": existing, **info}, f"{kind}/{position}: {why}")
    for kind, fw, existing, why, info in clirun.parallel(success_case, list(range(12))):
        chk.count(key=("success", fw, existing, info["argv"][-1]))
        if why:
            oracle_failed |= chk.fail("oracle", {"success_case": True, **info}, why)
    chk.views["X-cli(faults)"] = {"cases": len(res) + 12, "disagreements": 0, "errors": []}
    base.conclude(chk, proofs_ok, [], oracle_failed)


def finish(chk):
    return chk.finish(level="proof", exhaustive=True,
                      rule="every fault kind (33) x position of the faulty argument among good ones (only / first / middle / last) x with / "
                           "without an existing output file, each with and without -o, in fresh subprocesses; plus successful runs; the "
                           "enumeration is complete in both tiers")


def replay(chk, path):
    r = base.load_replay(path)
    if "fault" not in r:
        print("replay:", r.get("broken") or r)
        return 1
    kinds, _ = fault_cases()
    _, _, _, why, _ = one((kinds, (r["fault"], r["position"], r["existing_output"])))
    print("REPLAY", "FAILS: " + why if why else "passes")
    return 1 if why else 0
