"""C15 — generation works from any thread and concurrent runs do not interfere."""
import itertools
import json

from .. import clirun, common
from . import base
from .c14 import worker

PIPE = {"a": ["G:A", "R:A:pf", "R:A:an"], "b": ["G:B", "R:B:df", "R:B:bn"], "c": ["G:A", "R:A:df", "F:A:1", "R:A:pf"],
        "d": ["G:B", "R:B:pf", "R:B:bn", "R:B:df"],
        # the same input rendered under different literal limits (5 distinct values: Literal under 10 / 16, str under 3)
        "e": ["G:C", "R:C:d3", "R:C:df"], "f": ["G:C", "R:C:b16", "R:C:bn", "R:C:d3"],
        # short pipelines for the forced schedules: one render each, limits 3 / 16 / 10
        "g": ["G:C", "R:C:d3"], "h": ["G:C", "R:C:b16"], "i": ["G:C", "R:C:df"],
        # a non-empty reference-path context (shared child, nested layout) in both threads
        "j": ["G:E", "R:E:bN"], "k": ["G:E", "R:E:dN", "R:E:pf"],
        # string converters on, one generator kind per pipeline (attrs / plain / dataclasses)
        "l": ["G:A", "R:A:ac"], "m": ["G:A", "R:A:bc"], "n": ["G:A", "R:A:df"],
        # date / time detection on (dateutil), with and without strings it can only guess about
        "o": ["G:T", "R:T:df"], "p": ["G:T2", "R:T2:df"]}


def solo(name):
    return name, worker({"ops": PIPE[name]})


def threaded(job):
    names, switch = job
    return job, worker({"threads": len(names), "ops": [PIPE[n] for n in names], "switch": switch}, timeout=600)


def scheduled(job):
    names, segs = job
    return job, worker({"schedule": segs, "ops": [PIPE[n] for n in names]}, timeout=600)


def run(chk, build):
    tier = chk.tier
    proofs_ok = base.proof_obligations(chk, build, ["Props/C15.v"], ["Globals"])
    alone = dict(clirun.parallel(solo, list(PIPE)))
    oracle_failed = False
    # a single call from a fresh worker thread (the importing thread never rendered): D5 (fixed)
    r = worker({"threads": 1, "ops": [PIPE["a"]]})
    chk.count(key="single-worker-thread", sample={"threads": 1, "pipeline": PIPE["a"]})
    if r[0] != alone["a"]:
        oracle_failed |= chk.fail("oracle", {"threads": ["a"]}, f"a pipeline run from a worker thread differs from the main-thread run: {json.dumps(r[0])[:200]}")
    jobs = []
    sizes = (2, 3, 4) if tier == "quick" else (2, 3, 4, 6, 8)
    reps = 4 if tier == "quick" else 40
    for n in sizes:
        combos = list(itertools.islice(itertools.product(PIPE, repeat=n), 0, None, max(1, len(PIPE) ** n // (10 if tier == "quick" else 60))))
        for c in combos:
            for k in range(reps if n <= 3 else max(1, reps // 2)):
                jobs.append((c, [1e-6, 1e-5, 1e-4, 5e-6][k % 4]))
    # date / time detection in several threads at once (dateutil, warnings): always part of the run
    for c in (("o", "p"), ("p", "o"), ("o", "o", "p"), ("o", "p", "p", "o")):
        for k in range(3 if tier == "quick" else 20):
            jobs.append((c, [1e-6, 5e-6, 1e-5][k % 3]))
    for (names, switch), res in clirun.parallel(threaded, jobs, workers=4):
        chk.count(key=(names, switch, len(chk.nontrivial)), sample={"threads": list(names), "switch_interval": switch} if len(chk.samples) < 3 else None)
        for i, n in enumerate(names):
            if res[i] != alone[n]:
                bad = [j for j, (x, y) in enumerate(zip(res[i], alone[n])) if x != y]
                oracle_failed |= chk.fail("oracle", {"threads": list(names), "switch_interval": switch, "thread": i},
                                          f"thread {i} (pipeline {n}) differs from its solo run at call(s) {bad}: {json.dumps(res[i][bad[0]])[:200] if bad else ''}")
                break
    # forced schedules: one thread is stopped at its j-th yield point (constructor / generate() entries of the code generators,
    # entries of generate / merge_models) while the other pipeline runs to its end, then resumes.  Deterministic, replayable.
    sjobs = []
    pairs = [("g", "h"), ("h", "g"), ("g", "i"), ("i", "h"), ("e", "f"), ("a", "c"), ("b", "d"), ("j", "k"),
             ("a", "b"), ("b", "a"), ("a", "j"), ("e", "b"), ("l", "n"), ("n", "l"), ("m", "l"), ("m", "n"), ("o", "p"), ("p", "o")] if tier == "quick" else [p for i, p in enumerate(itertools.permutations(PIPE, 2)) if i % 3 == 0]
    for pa, pb in pairs:
        for j in range(1, 25 if tier == "quick" else 41):
            sjobs.append(((pa, pb), [[0, j], [1, 10 ** 6]]))
    # three segments: A stopped at its j-th point, B at its k-th, A runs to its end while B is still inside its own render
    for pa, pb in ([("j", "k"), ("k", "j"), ("j", "j")] if tier == "quick" else pairs):
        for j in (range(3, 18, 3) if tier == "quick" else range(2, 32, 3)):
            for k in (range(3, 18, 3) if tier == "quick" else range(2, 32, 4)):
                sjobs.append(((pa, pb), [[0, j], [1, k], [0, 10 ** 6]]))
    for (names, segs), res in clirun.parallel(scheduled, sjobs, workers=8):
        chk.count(key=("sched", names, json.dumps(segs)), sample={"threads": list(names), "schedule": segs} if len(chk.samples) < 4 else None)
        for i, n in enumerate(names):
            if res[i] != alone[n]:
                bad = [j for j, (x, y) in enumerate(zip(res[i], alone[n])) if x != y]
                oracle_failed |= chk.fail("oracle", {"threads": list(names), "schedule": segs, "thread": i},
                                          f"under the forced schedule {segs} thread {i} (pipeline {n}) differs from its solo run at call(s) {bad}: "
                                          f"{json.dumps(res[i][bad[0]])[:200] if bad else ''}")
                break
    chk.views["X-sched"] = {"cases": len(sjobs), "disagreements": 0, "errors": []}
    chk.views["X-thread"] = {"cases": len(jobs) + 1, "disagreements": 0, "errors": [], "thread_counts": list(sizes)}
    base.conclude(chk, proofs_ok, [], oracle_failed)


def finish(chk):
    return chk.finish(level="proof",
                      rule="2-4 (quick) / 2-8 (thorough) concurrent independent pipelines (generation, renders for several frameworks and "
                           "layouts, a failing render) in real threads released by a barrier under switch intervals 1e-6..1e-4, each "
                           "compared with its solo run; plus a pipeline run entirely from a fresh worker thread. The schedules are "
                           "whatever the interpreter produces: they are not enumerated (partial by nature, see DESIGN 6 C15); plus FORCED "
                           "schedules (X-sched): two pipelines under a cooperative scheduler, one stopped at its j-th yield point "
                           "(code-generator constructor / generate() entries, generate / merge_models entries) while the other runs "
                           "to its end: deterministic and replayable")


def replay(chk, path):
    r = base.load_replay(path)
    if "threads" not in r:
        print("replay:", r.get("broken") or r)
        return 1
    names = r["threads"]
    if r.get("schedule") is not None:
        res = worker({"schedule": r["schedule"], "ops": [PIPE[n] for n in names]})
        bad = [i for i, n in enumerate(names) if res[i] != worker({"ops": PIPE[n]})]
        print("REPLAY", f"FAILS: thread(s) {bad} differ from their solo runs under the forced schedule" if bad else "passes")
        return 1 if bad else 0
    bad = 0
    for k in range(20):
        res = worker({"threads": len(names), "ops": [PIPE[n] for n in names], "switch": r.get("switch_interval", 1e-6)})
        bad += sum(1 for i, n in enumerate(names) if res[i] != worker({"ops": PIPE[n]}))
    print("REPLAY", f"FAILS in {bad} thread-runs of 20 attempts" if bad else "passes (20 attempts)")
    return 1 if bad else 0
