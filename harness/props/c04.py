"""C04 — emitted classes denote exactly the inferred model graph."""
from . import emitprops

WANT = ("load", "classes", "fields", "keys", "types", "defaults")


def classify(kind, msg, tags, o):
    out = set()
    if kind == "base-no-defaults":
        out.add("base-no-defaults")
    if kind in ("load", "import-shadow", "classes", "render", "keys", "types"):
        for t in ("class-shadows-import", "field-shadows-import", "pydantic-reserved-key", "attrs-reserved-key"):
            if t in tags:
                out.add(t)
    if kind == "render" and "empty-label" in tags:
        out.add("empty-label")
    return out


def run(chk, build):
    emitprops.drive(chk, build, "Props/C04.v", ["Labels", "Limits"], emitprops.realistic_key, WANT, classify, 400, 10000)


def finish(chk):
    return chk.finish(level="proof",
                      rule="every program emitted for the explored inputs (key styles of C03) x 5 frameworks x both layouts x literal limit / "
                           "converter / metadata options, compared field by field with an independent rendering of the registry (typing "
                           "objects, attached keys, defaults); distinct = distinct (samples, options)")


def replay(chk, path):
    return emitprops.replay_emit(chk, path, WANT, classify)
