"""C04 — emitted classes denote exactly the inferred model graph."""
from . import emitprops

WANT = ("load", "classes", "fields", "keys", "types", "defaults")


def classify(kind, msg, tags, o):
    out = set()
    if kind == "base-no-defaults":
        out.add("base-no-defaults")
    if kind in ("load", "import-shadow", "classes", "render", "keys", "types"):
        for t in ("class-shadows-import", "field-shadows-import", "pydantic-reserved-key", "attrs-reserved-key"):
            if t in tags:
                out.add(t)
    if kind == "folded-collision":
        out.add(kind)
    if kind in ("classes", "load", "types", "keys", "fields") and "class-names-collapse" in tags:
        out.add("class-names-collapse")
    if kind == "render" and "empty-label" in tags:
        out.add("empty-label")
    return out


def x_ann(chk, disagreements):
    """X-ann: random type terms printed by the REAL metadata_to_typing under the style of every generator; inside Coq the
    printer model gives the same text, parse_ann of that text gives the tree CPython's ast.parse gives, and that tree is
    denote t (tools/validate_pyann.py; the theorem parse_print is about exactly these functions)."""
    import os, re, subprocess
    from .. import common
    n = 900 if chk.tier == "quick" else 12000
    wd = os.path.join(chk.workdir, "pyann")
    os.makedirs(wd, exist_ok=True)
    env = dict(os.environ, J2M_REPO=common.REPO, PYTHONPATH=common.REPO)
    try:
        p = subprocess.run([common.PY, os.path.join(common.VERIF, "tools", "validate_pyann.py"), "--n", str(n), "--seed", str(chk.seed + 1),
                            "--jobs", "8", "--keep", wd], capture_output=True, text=True, env=env, timeout=3000)
        out, rc = (p.stdout + p.stderr).strip(), p.returncode
    except subprocess.TimeoutExpired:
        out, rc = "timeout", 124
    m = re.search(r"OK\s+(\d+) cases", out)
    chk.views["X-ann"] = {"cases": int(m.group(1)) if m else 0, "disagreements": 0 if rc == 0 else 1, "errors": [] if rc == 0 else [out[-600:]]}
    chk.evaluations += int(m.group(1)) if m else 0
    if rc != 0:
        disagreements.append({"view": "X-ann", "error": out[-1500:]})


def run(chk, build):
    emitprops.drive(chk, build, "Props/C04.v", ["Labels", "Limits"], emitprops.realistic_key, WANT, classify, 400, 10000, extra=x_ann)


def finish(chk):
    return chk.finish(level="proof",
                      rule="every program emitted for the explored inputs (key styles of C03) x 5 frameworks x both layouts x literal limit / "
                           "converter / metadata options, compared field by field with an independent rendering of the registry (typing "
                           "objects, attached keys, defaults); distinct = distinct (samples, options)")


def replay(chk, path):
    return emitprops.replay_emit(chk, path, WANT, classify)
