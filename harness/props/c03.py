"""C03 — the emitted module is loadable Python with every reference resolvable."""
from . import emitprops

WANT = ("load", "classes", "fields")
CORPUS = [
    ([{"a": "1"}, {}], {"fw": "attrs"}),                                                     # D6
    ([{"a": [], "b": "1"}], {"fw": "attrs", "converters": True}),                            # D19
    ([{"a": [], "b": "1"}], {"fw": "dataclasses", "converters": True}),
    ([{'a"b': 1, "c\\d": 2}], {"fw": "pydantic"}),                                           # D7
    ([{"a": {"b": {"c": 1}}, "d": [{"e": "x"}]}], {"fw": "pydantic", "structure": "nested"}),
]


def classify(kind, msg, tags, o):
    out = set()
    if kind in ("load", "import-shadow", "classes", "render"):
        for t in ("class-shadows-import", "field-shadows-import", "pydantic-reserved-key", "attrs-reserved-key"):
            if t in tags:
                out.add(t)
    if kind == "folded-collision":
        out.add(kind)
    if kind in ("classes", "load", "types", "keys", "fields") and "class-names-collapse" in tags:
        out.add("class-names-collapse")
    if kind == "render" and "empty-label" in tags:
        out.add("empty-label")
    return out


def run(chk, build):
    emitprops.drive(chk, build, "Props/C03.v", ["Labels"], emitprops.realistic_key, WANT, classify, 400, 10000, CORPUS)


def finish(chk):
    return chk.finish(level="proof",
                      rule="objects over the key styles the property names (snake, camel, kebab, Pascal, inner digits, keywords, builtin / "
                           "typing names, cased non-ASCII letters) x 5 frameworks x flat / nested (tree-shaped graphs) x converters / metadata "
                           "/ unicode / literal options; distinct = distinct (samples, options)")


def replay(chk, path):
    return emitprops.replay_emit(chk, path, WANT, classify)
