"""C09 — string pseudo-types are detected soundly and convert losslessly."""
import itertools
import math

from .. import common, coqterm as ct, gen, impl
from . import base

ALL = ("IntString", "FloatString", "BooleanString", "IsoDateString", "IsoTimeString", "IsoDatetimeString")


def grammar_strings(r, n):
    """structured grammar, mostly valid strings (ints, floats, booleans, ISO dates / times / datetimes with the variations the
    property names) plus a malformed stream obtained by mutating valid ones"""
    ws = ["", "", "", " ", "\t", "\n", "\u2003", "\u00a0"]
    sign = ["", "", "+", "-"]

    def digits(k=None):
        k = k or r.randint(1, 6)
        d = "".join(r.choice("0123456789") for _ in range(k))
        if r.random() < 0.15:
            d = d.translate(str.maketrans("0123456789", r.choice(["٠١٢٣٤٥٦٧٨٩", "０１２３４５６７８９"])))
        if r.random() < 0.2 and len(d) > 2:
            i = r.randint(1, len(d) - 1)
            d = d[:i] + "_" + d[i:]
        return d

    def int_s():
        return r.choice(ws) + r.choice(sign) + digits() + r.choice(ws)

    def float_s():
        k = r.random()
        if k < 0.15:
            return r.choice(ws) + r.choice(sign) + r.choice(["inf", "Inf", "INF", "infinity", "Infinity", "nan", "NaN", "NAN"]) + r.choice(ws)
        m = r.choice([digits() + "." + digits(), digits() + ".", "." + digits(), digits()])
        e = r.choice(["", "", "e" + r.choice(sign) + digits(2), "E" + digits(1)])
        if "." not in m and not e:
            e = "e" + digits(1)
        return r.choice(ws) + r.choice(sign) + m + e + r.choice(ws)

    def bool_s():
        return "".join(c.upper() if r.random() < 0.3 else c for c in r.choice(["true", "false"]))

    def date_s():
        y, m, d = r.randint(1, 9999), r.randint(1, 12), r.randint(1, 28)
        return r.choice([f"{y:04d}-{m:02d}-{d:02d}", f"{y:04d}{m:02d}{d:02d}", f"{y:04d}-{m:02d}", f"{y:04d}-W{r.randint(1, 52):02d}-{r.randint(1, 7)}",
                         f"{y:04d}-{r.randint(1, 365):03d}", f"{y:04d}"])

    def time_s():
        h, mi, sec = r.randint(0, 23), r.randint(0, 59), r.randint(0, 59)
        t = r.choice([f"{h:02d}:{mi:02d}", f"{h:02d}:{mi:02d}:{sec:02d}", f"{h:02d}:{mi:02d}:{sec:02d}.{r.randint(0, 999999):06d}",
                      f"{h:02d}:{mi:02d}:{sec:02d}.{r.randint(0, 999):03d}", f"{h:02d}{mi:02d}", f"{h:02d}{mi:02d}{sec:02d}", f"{h:02d}"])
        return t + r.choice(["", "", "Z", "+01:00", "-05:30", "+0100", "+01"])

    def datetime_s():
        return date_s() + r.choice(["T", "T", " ", "t"]) + time_s()

    def mutate(x):
        k = r.random()
        if not x:
            return "x"
        i = r.randrange(len(x))
        if k < 0.3:
            return x[:i] + x[i + 1:]
        if k < 0.6:
            return x[:i] + r.choice("_-+.:eTZ x/") + x[i:]
        if k < 0.8:
            return x + x
        return x[:i] + r.choice("abcXYZ") + x[i + 1:]
    gens = [int_s, float_s, bool_s, date_s, time_s, datetime_s]
    out = ["", "1", "0", "-0.0", "1e400", "0x10", "1j", "1.5.2", "9" * 25, "12345678901-2", "yes", "t", "24:00", "12:60", "2020-13-01", "2020-02-30",
           "0001-01-01", "9999-12-31", "1__0", "_1", "1_", "02/01/2020", "12:30:45,5", "T12", "2020-W01-1"]
    while len(out) < n:
        x = r.choice(gens)()
        out.append(x if r.random() < 0.7 else mutate(x))
    return out[:n]


def same_value(a, b):
    if isinstance(a, float) and isinstance(b, float) and math.isnan(a) and math.isnan(b):
        return True
    return a == b


def string_oracle(s, order):
    """detection of one string under one registry order + round trip of the accepting parsers"""
    from json_to_models.generator import MetadataGenerator
    from json_to_models.dynamic_typing import StringLiteral
    cl = impl.pseudo_classes()
    reg = impl.make_registry(order)
    g = MetadataGenerator(reg)
    t = g._detect_type(s)
    acc = [n for n in order if impl.accepts(cl[n], s)]
    if isinstance(t, StringLiteral):
        if acc:
            return f"{s!r} is classified as a plain string although {acc[0]} accepts it", None, acc
        det = None
    else:
        det = t.__name__
        if det not in acc:
            return f"{s!r} is classified {det} but its parser rejects it", det, acc
        if acc[0] != det:
            return f"{s!r} is classified {det} although {acc[0]} is registered earlier and accepts it", det, acc
    # parse -> render -> parse
    for n in acc:
        try:
            v1 = cl[n].to_internal_value(s)
            rep = v1.to_representation()
            v2 = cl[n].to_internal_value(rep)
        except Exception as e:  # noqa
            return f"{n}: parse/render/parse of {s!r} raises {type(e).__name__}: {e}", det, acc
        if not same_value(v1, v2):
            return f"{n}: {s!r} parses to {v1!r}, renders {rep!r}, which parses to {v2!r}", det, acc
    return None, det, acc


def resolve_oracle(subset, strings_by_type):
    """resolve(*subset) returns one type only if it accepts every string any member accepts; otherwise str is used"""
    cl = impl.pseudo_classes()
    reg = impl.make_registry(ALL)
    res = reg.resolve(*[cl[n] for n in subset])
    names = sorted(c.__name__ for c in res)
    if not set(names) <= set(subset):
        return f"resolve{subset} returns {names}, not a subset of its arguments", names
    if len(names) == 0 and subset:
        return f"resolve{subset} returns nothing", names
    if len(names) == 1:
        t = cl[names[0]]
        for n in subset:
            for s in strings_by_type.get(n, ()):
                if not impl.accepts(t, s):
                    return f"resolve{subset} = {names[0]}, which rejects {s!r} accepted by {n}", names
    return None, names


def disabled_oracle(name, samples):
    """after remove_by_name(name) the type never appears in the output"""
    from json_to_models.generator import MetadataGenerator
    cl = impl.pseudo_classes()
    reg = impl.make_registry(ALL)
    reg.remove_by_name(name)
    gone = [n for n, c in cl.items() if n == name or c.actual_type.__name__ == name]
    for n in gone:
        if cl[n] in reg.types:
            return f"remove_by_name({name!r}) leaves {n} registered"
        if any(cl[n] in pair for pair in reg.replaces):
            return f"remove_by_name({name!r}) leaves a replace pair mentioning {n}"
    g = MetadataGenerator(reg)
    try:
        fields = g.generate(*samples)
    except Exception as e:  # noqa
        return f"generate raises {type(e).__name__}: {e}"
    txt = repr(ct.pyty(fields))
    for n in gone:
        if f"'{n}'" in txt:
            return f"disabled type {n} appears in the result"
    return None


def run(chk, build):
    tier = chk.tier
    proofs_ok = base.proof_obligations(chk, build, ["Props/C09.v"], ["StrReg"])
    disagreements, oracle_failed = [], False
    g = gen.Gen(chk.seed * 1000003 + 9, datetime=True)
    strings = grammar_strings(g.r, 1500 if tier == "quick" else 60000)
    orders = [ALL[:3], ALL, ("FloatString", "IntString", "BooleanString"), ("BooleanString", "IntString"),
              ("IsoDatetimeString", "IsoDateString", "IsoTimeString", "FloatString"), ("IntString",), ()]
    if tier == "thorough":
        orders = [p for k in range(0, 4) for p in itertools.permutations(ALL, k)] + [ALL]
    cl = impl.pseudo_classes()
    strings_by_type = {n: [s for s in strings[:400] if impl.accepts(cl[n], s)] for n in ALL}
    terms, meta = [], []
    subsets = [c for k in range(0, 7) for c in itertools.combinations(ALL, k)]
    resolved = {}
    for sub in subsets:
        why, names = resolve_oracle(sub, strings_by_type)
        resolved[sub] = names
        chk.count(key=("resolve", sub), sample={"resolve": list(sub), "result": names} if len(sub) == 3 and len(chk.samples) < 2 else None)
        if why:
            oracle_failed |= chk.fail("oracle", {"resolve": list(sub)}, why)
    reg6 = impl.make_registry(ALL)
    reps = sorted((a.__name__, b.__name__) for a, b in reg6.replaces)
    for i, s in enumerate(strings):
        order = orders[i % len(orders)]
        why, det, acc = string_oracle(s, order)
        hist = chk.notes.setdefault("detected_histogram", {})
        hist[det or "plain"] = hist.get(det or "plain", 0) + 1
        chk.count(key=("str", s, order), sample={"string": s, "order": list(order), "detected": det} if i < 2 else None)
        if why:
            tags = []
            # known finding D18-like: dateutil accepts, isoformat/isoparse round trip differs
            oracle_failed |= chk.fail("oracle", {"string": s, "order": list(order)}, why, tags=tags)
        sub = subsets[i % len(subsets)]
        terms.append("{| c_registry := " + ct.clist([ct.PSEUDO[n] for n in order]) +
                     "; c_replaces := " + ct.clist([f"({ct.PSEUDO[a]}, {ct.PSEUDO[b]})" for a, b in reps]) +
                     "; c_types := " + ct.clist([ct.PSEUDO[n] for n in sub]) +
                     "; c_resolved := " + ct.clist([ct.PSEUDO[n] for n in resolved[sub]]) +
                     f"; c_string := {ct.cstr(s)}; c_accepted_by := " + ct.clist([ct.PSEUDO[n] for n in acc]) +
                     "; c_detected := " + ct.copt(det, lambda d: ct.PSEUDO[d]) + " |}")
        meta.append({"string": s, "order": list(order), "resolve": list(sub)})
    base.run_view(chk, "Vresolve", "X-strtypes", terms, meta, disagreements, shard=300,
                  header="From J2M.Model Require Import Optimize Detect.")
    # disabled types
    for name in ("int", "float", "bool", "IntString", "FloatString", "BooleanString", "date", "time", "datetime", "IsoDateString"):
        for j in range(3 if tier == "quick" else 30):
            s = g.samples()
            why = disabled_oracle(name, s)
            chk.count(key=("disabled", name, j))
            if why:
                oracle_failed |= chk.fail("oracle", {"disabled": name, "samples": s}, why)
    # X-grammar: int_ok / float_ok / bool_ok (the recognisers of the theorems) against the package's IntString / FloatString /
    # BooleanString on every string of length <= 4 over 16 characters plus structured random strings
    import os, re, subprocess
    wd = os.path.join(chk.workdir, "grammar")
    os.makedirs(wd, exist_ok=True)
    env = dict(os.environ, J2M_REPO=common.REPO, PYTHONPATH=common.REPO)
    try:
        p = subprocess.run([common.PY, os.path.join(common.VERIF, "tools", "validate_grammar.py"), "--random", "8000" if tier == "quick" else "150000",
                            "--seed", str(chk.seed + 1), "--jobs", "8", "--keep", wd], capture_output=True, text=True, env=env, timeout=3000)
        out, rc = (p.stdout + p.stderr).strip(), p.returncode
    except subprocess.TimeoutExpired:
        out, rc = "timeout", 124
    m = re.search(r"OK\s+(\d+) strings", out)
    chk.views["X-grammar"] = {"cases": int(m.group(1)) if m else 0, "disagreements": 0 if rc == 0 else 1, "errors": [] if rc == 0 else [out[-600:]]}
    chk.evaluations += int(m.group(1)) if m else 0
    if rc != 0:
        disagreements.append({"view": "X-grammar", "error": out[-1500:]})
    base.conclude(chk, proofs_ok, disagreements, oracle_failed)


def finish(chk):
    return chk.finish(level="proof",
                      rule="strings from a structured grammar (signs, digit groups with underscores, fractions, exponents, Unicode "
                           "whitespace/digits, inf/nan and boolean case variants, ISO date/time fragments) x registry orders; all 64 "
                           "subsets passed to resolve; remove_by_name by class and actual-type name; distinct = distinct (string, order)")


def replay(chk, path):
    r = base.load_replay(path)
    if "string" in r:
        why = string_oracle(r["string"], tuple(r["order"]))[0]
    elif "resolve" in r and "string" not in r:
        cl = impl.pseudo_classes()
        why = resolve_oracle(tuple(r["resolve"]), {})[0]
    elif "disabled" in r:
        why = disabled_oracle(r["disabled"], r["samples"])
    else:
        print("replay names a broken obligation / view:", r.get("broken"))
        return 1
    print("REPLAY", "FAILS: " + why if why else "passes")
    return 1 if why else 0
