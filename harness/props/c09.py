"""C09 — string pseudo-types are detected soundly and convert losslessly."""
import itertools
import math

from .. import common, coqterm as ct, gen, impl
from . import base

ALL = ("IntString", "FloatString", "BooleanString", "IsoDateString", "IsoTimeString", "IsoDatetimeString")


def grammar_strings(r, n):
    """structured grammar: signs, exponents, underscores, whitespace, non-ASCII digits, case variants, ISO fragments"""
    out = set()
    signs = ["", "+", "-", "--", "+-"]
    ws = ["", " ", "\t", "\n", " ", " "]
    digits = ["0", "1", "42", "007", "1_000", "1__0", "_1", "1_", "١٢", "１２", "9" * 25]
    fracs = ["", ".", ".5", ".0", "._5", ".5_0"]
    exps = ["", "e3", "E-2", "e+10", "e", "e1_0", "e١"]
    for s, w1, d, f, e, w2 in itertools.product(signs, ws[:3], digits, fracs, exps, ws[:2]):
        if r.random() < 0.35:
            out.add(w1 + s + d + f + e + w2)
    for x in ["inf", "Inf", "INF", "infinity", "-Infinity", "+inf", "nan", "NaN", "-nan", "nan ", " inf", "in f", "infinit", "1e400", "-0.0", "0x10", "1j", "1.5.2", ""]:
        out.add(x)
    for x in ["true", "false", "True", "FALSE", "tRuE", " true", "true ", "yes", "1", "0", "t", "truefalse"]:
        out.add(x)
    dates = ["2020-01-02", "2020-1-2", "20200102", "2020-01", "2020", "2020-W01-1", "2020-001", "02/01/2020", "2020-13-01", "2020-02-30", "0001-01-01", "9999-12-31"]
    times = ["12:30", "12:30:45", "12:30:45.123", "12:30:45.123456", "T12", "1230", "24:00", "12:60", "12:30Z", "12:30+01:00", "12:30:45,5", "12"]
    for d in dates:
        out.add(d)
        for sep in ["T", " ", "t"]:
            for t in times[:8]:
                if r.random() < 0.5:
                    out.add(d + sep + t)
                    out.add(d + sep + t + r.choice(["", "Z", "+01:00", "-0530", "+01"]))
    for t in times:
        out.add(t)
    out = sorted(out)
    r.shuffle(out)
    return out[:n]


def same_value(a, b):
    if isinstance(a, float) and isinstance(b, float) and math.isnan(a) and math.isnan(b):
        return True
    return a == b


def string_oracle(s, order):
    """detection of one string under one registry order + round trip of the accepting parsers"""
    from json_to_models.generator import MetadataGenerator
    from json_to_models.dynamic_typing import StringLiteral
    cl = impl.pseudo_classes()
    reg = impl.make_registry(order)
    g = MetadataGenerator(reg)
    t = g._detect_type(s)
    acc = [n for n in order if impl.accepts(cl[n], s)]
    if isinstance(t, StringLiteral):
        if acc:
            return f"{s!r} is classified as a plain string although {acc[0]} accepts it", None, acc
        det = None
    else:
        det = t.__name__
        if det not in acc:
            return f"{s!r} is classified {det} but its parser rejects it", det, acc
        if acc[0] != det:
            return f"{s!r} is classified {det} although {acc[0]} is registered earlier and accepts it", det, acc
    # parse -> render -> parse
    for n in acc:
        try:
            v1 = cl[n].to_internal_value(s)
            rep = v1.to_representation()
            v2 = cl[n].to_internal_value(rep)
        except Exception as e:  # noqa
            return f"{n}: parse/render/parse of {s!r} raises {type(e).__name__}: {e}", det, acc
        if not same_value(v1, v2):
            return f"{n}: {s!r} parses to {v1!r}, renders {rep!r}, which parses to {v2!r}", det, acc
    return None, det, acc


def resolve_oracle(subset, strings_by_type):
    """resolve(*subset) returns one type only if it accepts every string any member accepts; otherwise str is used"""
    cl = impl.pseudo_classes()
    reg = impl.make_registry(ALL)
    res = reg.resolve(*[cl[n] for n in subset])
    names = sorted(c.__name__ for c in res)
    if not set(names) <= set(subset):
        return f"resolve{subset} returns {names}, not a subset of its arguments", names
    if len(names) == 0 and subset:
        return f"resolve{subset} returns nothing", names
    if len(names) == 1:
        t = cl[names[0]]
        for n in subset:
            for s in strings_by_type.get(n, ()):
                if not impl.accepts(t, s):
                    return f"resolve{subset} = {names[0]}, which rejects {s!r} accepted by {n}", names
    return None, names


def disabled_oracle(name, samples):
    """after remove_by_name(name) the type never appears in the output"""
    from json_to_models.generator import MetadataGenerator
    cl = impl.pseudo_classes()
    reg = impl.make_registry(ALL)
    reg.remove_by_name(name)
    gone = [n for n, c in cl.items() if n == name or c.actual_type.__name__ == name]
    for n in gone:
        if cl[n] in reg.types:
            return f"remove_by_name({name!r}) leaves {n} registered"
        if any(cl[n] in pair for pair in reg.replaces):
            return f"remove_by_name({name!r}) leaves a replace pair mentioning {n}"
    g = MetadataGenerator(reg)
    try:
        fields = g.generate(*samples)
    except Exception as e:  # noqa
        return f"generate raises {type(e).__name__}: {e}"
    txt = repr(ct.pyty(fields))
    for n in gone:
        if f"'{n}'" in txt:
            return f"disabled type {n} appears in the result"
    return None


def run(chk, build):
    tier = chk.tier
    proofs_ok = base.proof_obligations(chk, build, ["Props/C09.v"], ["StrReg"])
    disagreements, oracle_failed = [], False
    g = gen.Gen(chk.seed * 1000003 + 9, datetime=True)
    strings = grammar_strings(g.r, 1500 if tier == "quick" else 60000)
    orders = [ALL[:3], ALL, ("FloatString", "IntString", "BooleanString"), ("BooleanString", "IntString"),
              ("IsoDatetimeString", "IsoDateString", "IsoTimeString", "FloatString"), ("IntString",), ()]
    if tier == "thorough":
        orders = [p for k in range(0, 4) for p in itertools.permutations(ALL, k)] + [ALL]
    cl = impl.pseudo_classes()
    strings_by_type = {n: [s for s in strings[:400] if impl.accepts(cl[n], s)] for n in ALL}
    terms, meta = [], []
    subsets = [c for k in range(0, 7) for c in itertools.combinations(ALL, k)]
    resolved = {}
    for sub in subsets:
        why, names = resolve_oracle(sub, strings_by_type)
        resolved[sub] = names
        chk.count(key=("resolve", sub), sample={"resolve": list(sub), "result": names} if len(sub) == 3 and len(chk.samples) < 2 else None)
        if why:
            oracle_failed |= chk.fail("oracle", {"resolve": list(sub)}, why)
    reg6 = impl.make_registry(ALL)
    reps = sorted((a.__name__, b.__name__) for a, b in reg6.replaces)
    for i, s in enumerate(strings):
        order = orders[i % len(orders)]
        why, det, acc = string_oracle(s, order)
        hist = chk.notes.setdefault("detected_histogram", {})
        hist[det or "plain"] = hist.get(det or "plain", 0) + 1
        chk.count(key=("str", s, order), sample={"string": s, "order": list(order), "detected": det} if i < 2 else None)
        if why:
            tags = []
            # known finding D18-like: dateutil accepts, isoformat/isoparse round trip differs
            oracle_failed |= chk.fail("oracle", {"string": s, "order": list(order)}, why, tags=tags)
        sub = subsets[i % len(subsets)]
        terms.append("{| c_registry := " + ct.clist([ct.PSEUDO[n] for n in order]) +
                     "; c_replaces := " + ct.clist([f"({ct.PSEUDO[a]}, {ct.PSEUDO[b]})" for a, b in reps]) +
                     "; c_types := " + ct.clist([ct.PSEUDO[n] for n in sub]) +
                     "; c_resolved := " + ct.clist([ct.PSEUDO[n] for n in resolved[sub]]) +
                     f"; c_string := {ct.cstr(s)}; c_accepted_by := " + ct.clist([ct.PSEUDO[n] for n in acc]) +
                     "; c_detected := " + ct.copt(det, lambda d: ct.PSEUDO[d]) + " |}")
        meta.append({"string": s, "order": list(order), "resolve": list(sub)})
    base.run_view(chk, "Vresolve", "X-strtypes", terms, meta, disagreements, shard=300,
                  header="From J2M.Model Require Import Optimize Detect.")
    # disabled types
    for name in ("int", "float", "bool", "IntString", "FloatString", "BooleanString", "date", "time", "datetime", "IsoDateString"):
        for j in range(3 if tier == "quick" else 30):
            s = g.samples()
            why = disabled_oracle(name, s)
            chk.count(key=("disabled", name, j))
            if why:
                oracle_failed |= chk.fail("oracle", {"disabled": name, "samples": s}, why)
    base.conclude(chk, proofs_ok, disagreements, oracle_failed)


def finish(chk):
    return chk.finish(level="proof",
                      rule="strings from a structured grammar (signs, digit groups with underscores, fractions, exponents, Unicode "
                           "whitespace/digits, inf/nan and boolean case variants, ISO date/time fragments) x registry orders; all 64 "
                           "subsets passed to resolve; remove_by_name by class and actual-type name; distinct = distinct (string, order)")


def replay(chk, path):
    r = base.load_replay(path)
    if "string" in r:
        why = string_oracle(r["string"], tuple(r["order"]))[0]
    elif "resolve" in r and "string" not in r:
        cl = impl.pseudo_classes()
        why = resolve_oracle(tuple(r["resolve"]), {})[0]
    elif "disabled" in r:
        why = disabled_oracle(r["disabled"], r["samples"])
    else:
        print("replay names a broken obligation / view:", r.get("broken"))
        return 1
    print("REPLAY", "FAILS: " + why if why else "passes")
    return 1 if why else 0
