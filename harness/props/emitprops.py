"""Shared driver of the emit-level properties C03, C04, C11: inputs -> registry -> rendered module -> emitcheck + X-emit."""
import re

from .. import common, coqterm as ct, emitcase, emitcheck, gen, impl, names, pipeline
from . import base

RN3 = ("IntString", "FloatString", "BooleanString")
RN6 = RN3 + ("IsoDateString", "IsoTimeString", "IsoDatetimeString")
CASED = ["é", "ß", "ж", "Ж", "ñ", "Å", "ü", "Ω", "ç", "e\u0301", "u\u0308"]     # the last two: decomposed spellings
WORDS = ["user", "id", "name", "value", "http", "url", "item", "data", "type", "count", "first", "last", "x", "y"]


def realistic_key(r):
    """the key styles C03 names: snake, camel, kebab, Pascal, inner digits, keywords, builtin and typing names,
    non-ASCII letters of cased scripts; never starting with a digit or an underscore"""
    k = r.random()
    if k < 0.12:
        w = r.choice(["class", "def", "import", "for", "None", "async", "lambda", "in", "is", "global", "pass", "yield", "from", "return"])
        # a keyword also in Pascal / upper case: the label is lower-cased by the snake-case step
        return r.choice([w, w, w.capitalize(), w.upper()])
    if k < 0.24:
        return r.choice(["list", "dict", "type", "id", "str", "int", "object", "print", "len", "max", "filter", "format", "hash", "input"])
    if k < 0.30:
        return r.choice(["datetime", "date", "time", "schema", "defaultdict"])
    ws = [r.choice(WORDS) for _ in range(r.randint(1, 3))]
    if r.random() < 0.25:
        i = r.randrange(len(ws))
        ws[i] = ws[i] + str(r.randint(0, 99))
    if r.random() < 0.15:
        i = r.randrange(len(ws))
        ws[i] = ws[i][:1] + r.choice(CASED) + ws[i][1:]
    style = r.choice(["snake", "camel", "kebab", "pascal", "upper", "space", "dotted"])
    if style == "snake":
        return "_".join(ws)
    if style == "camel":
        return ws[0] + "".join(w.capitalize() for w in ws[1:])
    if style == "kebab":
        return "-".join(ws)
    if style == "pascal":
        return "".join(w.capitalize() for w in ws)
    if style == "upper":
        return "_".join(ws).upper()
    if style == "space":
        return " ".join(ws)
    return ".".join(ws)


def fold_prop(k, cu):
    """the property's own case/punctuation folding"""
    from unidecode import unidecode
    s = unidecode(k) if cu else k
    return re.sub(r"[\W_]", "", s).lower()


def distinct_keys(keyfn, r, n, cu):
    out, seen = [], set()
    tries = 0
    while len(out) < n and tries < 50:
        tries += 1
        k = keyfn(r)
        f = fold_prop(k, cu)
        if not f or f in seen:
            continue
        seen.add(f)
        out.append(k)
    return out


def make_input(r, keyfn, cu):
    keys = distinct_keys(keyfn, r, r.randint(3, 7), cu)
    g = gen.Gen(r.randrange(10 ** 9), keys=keys, datetime=r.random() < 0.2)
    s = g.samples(depth=3)
    if len(keys) >= 3 and r.random() < 0.15:
        # look-alike leaf siblings: two objects with the same field names and types under one parent (they stay separate
        # models under a count-only merge policy, and the nested layout has to place both)
        leaf = {k: 1.5 for k in keys[:3]}
        s[0] = dict(s[0], **{keys[-1]: dict(leaf), keys[-2]: dict(leaf)})
    return s, g.datetime


def options(r, datetime):
    return dict(fw=r.choice(pipeline.FRAMEWORKS), structure=r.choice(["flat", "flat", "nested"]),
                cmp=r.choice([None, None, [("exact",)], [("number", 2)], [("number", 10)]]), rn=RN6 if datetime else RN3,
                max_literals=r.choice([10, 10, 0, 2, 16]), converters=r.random() < 0.35, meta=r.random() < 0.5,
                unidecode=None, preamble=None)


def lost_keys(samples, reg, root_name="Root"):
    """-> description of an input key that is NOT a key of the model typing its position (a key altered before the label step
    can never be recovered from the field), or None.  Objects typed as mappings (Dict[str, T]) have no fields: their values
    are followed, their keys are not looked up.  Under a Union an object must fit at least one candidate model."""
    from json_to_models.dynamic_typing import DDict, DList, DOptional, DUnion, ModelPtr

    def models_of(t):
        if isinstance(t, DOptional):
            return models_of(t.type)
        if isinstance(t, DUnion):
            return [m for x in t.types for m in models_of(x)]
        if isinstance(t, ModelPtr):
            return [t.type]
        return []

    def inner(t, cls):
        if isinstance(t, DOptional):
            return inner(t.type, cls)
        if isinstance(t, DUnion):
            return [y for x in t.types for y in inner(x, cls)]
        return [t.type] if isinstance(t, cls) else []

    def visit(v, t, path, depth=0):
        if depth > 12:
            return None
        if isinstance(v, dict):
            cands = models_of(t)
            if cands and v:
                fits = [m for m in cands if all(k in m.type for k in v)]
                if not fits:
                    miss = [k for k in v if all(k not in m.type for m in cands)]
                    return f"{path}: input key(s) {miss[:3]!r} are not keys of the model(s) {[m.name for m in cands]} typing that position"
                first = None
                for m in fits:                 # an object under a Union fits when SOME candidate model takes it, all the way down
                    bad = None
                    for k, x in v.items():
                        bad = visit(x, m.type[k], f"{path}.{k}", depth + 1)
                        if bad:
                            break
                    if bad is None:
                        return None
                    first = first or bad
                return first
            else:
                for et in inner(t, DDict):
                    for k, x in v.items():
                        r = visit(x, et, f"{path}[{k!r}]", depth + 1)
                        if r:
                            return r
        elif isinstance(v, list):
            for et in inner(t, DList):
                for i, x in enumerate(v):
                    r = visit(x, et, f"{path}[{i}]", depth + 1)
                    if r:
                        return r
        return None
    roots = [m for m in reg.models if any(p.parent is None for p in m.pointers)]
    if len(roots) != 1:
        return None
    ptr = [p for p in roots[0].pointers if p.parent is None][0]
    for i, s in enumerate(samples):
        r = visit(s, ptr, f"sample {i}")
        if r:
            return r
    return None


def drive(chk, build, props_file, gen_modules, keyfn, want, classify, n_quick, n_thorough, corpus=(), extra=None):
    tier = chk.tier
    proofs_ok = base.proof_obligations(chk, build, [props_file], list(gen_modules))
    disagreements, oracle_failed = [], False
    n = n_quick if tier == "quick" else n_thorough
    r = gen.Gen(chk.seed * 1000003 + int(chk.prop[1:])).r
    eterms, emeta = [], []
    hist = chk.notes.setdefault("framework_histogram", {})
    for i in range(n + len(corpus)):
        if i < len(corpus):
            s, o = corpus[i]
            o = dict(pipeline.DEFAULT_OPTS, **o)
        else:
            cu = r.random() < 0.65
            s, dt = make_input(r, keyfn, cu)
            o = dict(pipeline.DEFAULT_OPTS)
            o.update(options(r, dt))
            o["unidecode"] = cu
        info = {"samples": s, "options": {k: (list(v) if isinstance(v, tuple) else v) for k, v in o.items()}}
        hist[o["fw"] + "/" + o["structure"]] = hist.get(o["fw"] + "/" + o["structure"], 0) + 1
        chk.count(key=repr(s) + repr(sorted(info["options"].items(), key=str)), sample=info if len(chk.samples) < 2 else None)
        roots = [("Root", s)]
        if i >= len(corpus) and r.random() < 0.15:
            # an explicit PLURAL root name whose singular is the name a nested model gets (-m Items on a document with "item")
            import inflection
            nk = [k for x in s for k, v in x.items() if (isinstance(v, dict) and v) or (isinstance(v, list) and v and isinstance(v[0], dict))]
            if nk:
                try:
                    cand = inflection.camelize(inflection.singularize(inflection.underscore(r.choice(nk)))) + "s"
                    if cand.isidentifier():
                        roots = [(cand, s)]
                        info["roots"] = [[cand, s]]
                except Exception:  # noqa
                    pass
        if i >= len(corpus) and r.random() < 0.25:
            # a second (and third) root whose explicit name is the name a nested model of the first root gets generated
            import inflection
            nested_keys = [k for x in s for k, v in x.items() if isinstance(v, dict) and v or (isinstance(v, list) and v and isinstance(v[0], dict))]
            name2 = "Item"
            if nested_keys:
                try:
                    name2 = inflection.camelize(inflection.singularize(inflection.underscore(r.choice(nested_keys)))) or "Item"
                except Exception:  # noqa
                    name2 = "Item"
            s2, _ = make_input(r, keyfn, o["unidecode"])
            roots.append((name2, s2))
            if r.random() < 0.3:
                roots.append(("Root", make_input(r, keyfn, o["unidecode"])[0]))      # the same explicit name twice
            if r.random() < 0.6:
                # D33: a further root whose explicit name is the name fix_name_duplicates gives to a duplicate (<name>_<index>)
                try:
                    reg0, _ = pipeline.build_registry(roots, o)
                    cands = [m.name for m in reg0.models if m.is_name_generated and m.name and m.name.endswith("_" + m.index)]
                    if cands:
                        roots.append((r.choice(cands), make_input(r, keyfn, o["unidecode"])[0]))
                except Exception:  # noqa
                    pass
            info["roots"] = [[n, x] for n, x in roots]
        try:
            reg, _ = pipeline.build_registry(roots, o)
        except Exception as e:  # noqa
            oracle_failed |= chk.fail("oracle", info, f"registry construction raises {type(e).__name__}: {e}")
            continue
        if o["structure"] == "nested" and not pipeline.tree_shaped(reg):
            o["structure"] = "flat"
            info["options"]["structure"] = "flat"
        tags = emitcheck.reserved_tags(reg, o)
        if "roots" not in info and "keys" in want:
            lk = lost_keys(s, reg)
            if lk:
                oracle_failed |= chk.fail("oracle", dict(info, failure_kind="lost-key"), lk)
        # X-emit first (it renders, which converts the names in place; rendering is idempotent on names)
        try:
            t, text, err = emitcase.emit_case(reg, o)
            eterms.append(t)
            emeta.append(info)
        except Exception as e:  # noqa
            disagreements.append(dict(info, view="X-emit", error=f"harness: {type(e).__name__}: {e}"))
            continue
        if text is None:
            res = [("render", f"generate_code raises {err}")]
        else:
            res = emitcheck.check(text, reg, o, want=want)
        for kind, msg in res[:3]:
            ftags = classify(kind, msg, tags, o)
            oracle_failed |= chk.fail("oracle", dict(info, failure_kind=kind), msg, tags=ftags)
    base.run_view(chk, "Vemit", "X-emit", eterms, emeta, disagreements, shard=50, header=base.EMIT_HEADER)
    if extra:
        extra(chk, disagreements)
    base.conclude(chk, proofs_ok, disagreements, oracle_failed)


def replay_emit(chk, path, want, classify):
    r = base.load_replay(path)
    if "samples" not in r:
        print("replay names a broken obligation / view:", r.get("broken"))
        return 1
    o = dict(pipeline.DEFAULT_OPTS)
    o.update(r["options"])
    o["rn"] = tuple(o["rn"])
    if o.get("cmp"):
        o["cmp"] = [tuple(x) for x in o["cmp"]]
    roots = [(n, x) for n, x in r["roots"]] if r.get("roots") else [("Root", r["samples"])]
    reg, _ = pipeline.build_registry(roots, o)
    try:
        text = pipeline.render(reg, o)
        res = emitcheck.check(text, reg, o, want=want)
    except Exception as e:  # noqa
        res = [("render", f"generate_code raises {type(e).__name__}: {e}")]
    for kind, msg in res:
        print("REPLAY FAILS:", kind, msg)
    if not res:
        print("REPLAY passes")
    return 1 if res else 0
