"""C14 — a generation is independent of what the process did before."""
import itertools
import json
import subprocess

from .. import clirun, common
from . import base

OPS = ["G:A", "R:C:pf", "R:A:pf", "R:A:an", "R:C:df", "F:A:1", "D", "X", "R:C:sf", "R:C:bn", "F:E:1:N", "R:E:pf", "R:E:bN", "R:A:bc", "R:A:ac", "R:Ar:pf",
       "G:B", "R:B:df", "R:B:bn", "F:B:0", "R:A:df", "R:B:pf", "G:E", "R:E:dN"]


def worker(spec, timeout=300):
    p = subprocess.run([common.PY, "-m", "harness.histworker", json.dumps(spec)], cwd=common.VERIF, env=common.child_env(),
                       capture_output=True, text=True, timeout=timeout)
    if p.returncode:
        raise RuntimeError("history worker failed: " + p.stderr[-500:])
    return json.loads(p.stdout)


def baseline(op):
    """the call in a fresh process (for a render: a fresh registry is generated first, which is part of the same op)"""
    return op, worker({"ops": [op]})[0]


def run_hist(h):
    return h, worker({"ops": list(h)})


def run(chk, build):
    tier = chk.tier
    proofs_ok = base.proof_obligations(chk, build, ["Props/C14.v"], ["Globals"])
    ops = OPS[:16] if tier == "quick" else OPS
    maxlen = 3 if tier == "quick" else 4
    fresh = dict(clirun.parallel(baseline, ops))
    hists = [h for n in range(1, min(maxlen, 3) + 1) for h in itertools.product(ops, repeat=n)]
    if tier == "quick":
        hists = [h for i, h in enumerate(hists) if len(h) < 3 or i % 3 == 0]
    else:
        # length 4: a seeded sample (the full product over 21 operations is 194 481 histories)
        import random
        rr = random.Random(chk.seed * 1000003 + 14)
        hists += [tuple(rr.choice(ops) for _ in range(4)) for _ in range(4000)]
    oracle_failed = False
    for h, outs in clirun.parallel(run_hist, hists):
        chk.count(key=h, sample={"history": list(h)} if len(h) == 3 and len(chk.samples) < 3 else None)
        for i, (op, out) in enumerate(zip(h, outs)):
            if op in ("D", "X"):
                continue          # these calls are the "something else the process did"; their own output is the mutated registry
            if out != fresh[op]:
                a, b = json.dumps(out)[:160], json.dumps(fresh[op])[:160]
                oracle_failed |= chk.fail("oracle", {"history": list(h), "call_index": i},
                                          f"call {i} ({op}) after {list(h[:i])} differs from the same call in a fresh process: {a} vs {b}")
                break
    chk.views["X-hist"] = {"cases": len(hists), "disagreements": 0, "errors": [], "ops": ops, "max_length": maxlen}
    base.conclude(chk, proofs_ok, [], oracle_failed)


def finish(chk):
    return chk.finish(level="proof", exhaustive=True,
                      rule="every sequence of <=3 calls (quick: lengths 1-2 complete, a third of length 3 over 15 operations; thorough: complete over "
                           "21 operations plus 4000 sampled sequences of 4 calls) over a pool of "
                           "generations, renders for several frameworks / layouts on shared registries, renders that raise inside code "
                           "generation, and mutations of the default string registry; each call's output is compared with the same call "
                           "in a fresh process")


def replay(chk, path):
    r = base.load_replay(path)
    if "history" not in r:
        print("replay:", r.get("broken") or r)
        return 1
    h = r["history"]
    outs = worker({"ops": h})
    bad = [i for i, op in enumerate(h) if op not in ("D", "X") and outs[i] != worker({"ops": [op]})[0]]
    print("REPLAY", f"FAILS at call(s) {bad}" if bad else "passes")
    return 1 if bad else 0
