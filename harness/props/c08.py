"""C08 — type simplification reaches a stable normal form."""
import copy

from .. import common, coqterm as ct, gen, impl, irgen, nfcheck, shrink
from . import base

RN3 = ("IntString", "FloatString", "BooleanString")
RN6 = RN3 + ("IsoDateString", "IsoTimeString", "IsoDatetimeString")
CORPUS = [
    [{"a": []}, {"a": [None]}],                                   # D1 (fixed): empty union / IndexError on the second pass
    [{"a": [[], [None]]}],
    [{"a": 1}, {"a": 1.5}, {"a": None}],
    [{"a": "x"}, {"a": "y" * 20}, {"a": "1"}],
    [{"a": [{"b": 1}, {"b": "1"}, {}]}, {"a": []}],
    [{"a": {"k": [1, "2", None, 2.5, [], {}]}}],
]


def oracle_samples(samples, rn=RN3, dkr=None, dkf=None):
    """-> None if the property holds on the implementation for this input, else a description"""
    from json_to_models.generator import MetadataGenerator
    reg = impl.make_registry(rn)
    g = MetadataGenerator(reg, dict_keys_regex=dkr, dict_keys_fields=dkf)
    try:
        fields = g.generate(*copy.deepcopy(samples))
    except Exception as e:  # noqa
        return f"generate raises {type(e).__name__}: {e}"
    v = nfcheck.nf_violations(fields, reg)
    if v:
        return "not in normal form: " + "; ".join(v[:3])
    before = ct.pyty(fields)
    try:
        again = g.optimize_type(fields)
    except Exception as e:  # noqa
        return f"second simplification raises {type(e).__name__}: {e}"
    if ct.pyty(again) != before:
        return "second simplification changes the result"
    return None


def union_case(members, rn=RN3, passes=2):
    """build DUnion(*members), optimise `passes`+1 times; -> (coq term, oracle failure or None)"""
    from json_to_models.generator import MetadataGenerator
    from json_to_models.dynamic_typing import DUnion
    reg = impl.make_registry(rn)
    g = MetadataGenerator(reg)
    objs = [irgen.build(m) for m in members]
    u = DUnion(*objs)
    uterm = ct.clist([ct.cty(x) for x in u.types])
    fail = None
    res = []
    cur = u
    for i in range(3):
        try:
            cur = g.optimize_type(cur)
            res.append((ct.cty(cur), ct.pyty(cur)))
        except Exception as e:  # noqa
            res.append(None)
            if fail is None:
                fail = f"simplification pass {i + 1} raises {type(e).__name__}: {e}"
            break
    # the property: after `passes` passes (1 for raw unions, 2 at the model-merging stage) the result is a normal form
    # and one more pass changes nothing
    if fail is None:
        v = nfcheck.nf_violations(cur if False else None, reg) if False else []
        # recompute on a fresh object (the passes above mutate in place)
        cur = DUnion(*[irgen.build(m) for m in members])
        for i in range(passes):
            cur = g.optimize_type(cur)
        v = nfcheck.nf_violations(cur, reg)
        if v:
            fail = f"after {passes} pass(es) not in normal form: " + "; ".join(v[:3])
        else:
            snap = ct.pyty(cur)
            nxt = g.optimize_type(cur)
            if ct.pyty(nxt) != snap:
                fail = f"pass {passes + 1} changes a normal form"
    reps = sorted((a.__name__, b.__name__) for a, b in reg.replaces)
    term = ("{| c_registry := " + ct.clist([ct.PSEUDO[n] for n in rn]) +
            "; c_replaces := " + ct.clist([f"({ct.PSEUDO[a]}, {ct.PSEUDO[b]})" for a, b in reps]) +
            "; c_members := " + ct.clist([ct.cty(irgen.build(m)) for m in members]) +
            "; c_union := " + uterm +
            "; c_opt1 := " + (f"(Some {res[0][0]})" if res and res[0] else "None") +
            "; c_opt2 := " + (f"(Some {res[1][0]})" if len(res) > 1 and res[1] else "None") + " |}")
    return term, fail


def has_opt(spec):
    return isinstance(spec, dict) and "opt" in spec


def run(chk, build):
    tier = chk.tier
    proofs_ok = base.proof_obligations(chk, build, ["Props/C08.v"], ["Limits"])
    n_rand = 600 if tier == "quick" else 20000
    # ---- corpus + random inputs: oracle (S) and X-infer / statement tests
    g = gen.Gen(chk.seed * 1000003 + 8, datetime=True)
    inputs = [(s, RN3, None, None) for s in CORPUS]
    for i in range(n_rand):
        rn = RN6 if g.r.random() < 0.4 else RN3
        dkf = g.r.choice([None, None, ["a"], ["items", "x"]])
        dkr = g.r.choice([None, None, ["^[ab]$"], [r"^\w$", "^id$"]])
        inputs.append((g.literal_heavy() if i % 20 == 3 else g.samples(), rn, dkr, dkf))
    terms = []
    oracle_failed = False
    for s, rn, dkr, dkf in inputs:
        why = oracle_samples(s, rn, dkr, dkf)
        res, err, _ = impl.run_generate(s, rn, dkr, dkf)
        chk.count(key=ct.pyty(res) if res is not None else err, sample={"samples": s, "registry": list(rn), "dkr": dkr, "dkf": dkf})
        terms.append(impl.infer_case_term(s, rn, dkr, dkf, res))
        if why:
            small = shrink.shrink_samples(s, lambda x: oracle_samples(x, rn, dkr, dkf) is not None)
            oracle_failed |= chk.fail("oracle", {"samples": small, "registry": list(rn), "dkr": dkr, "dkf": dkf,
                                                 "detail": oracle_samples(small, rn, dkr, dkf)}, why)
    disagreements = []
    for view in ("Vinfer", "Vnf"):
        tot, bad, errs = common.eval_cases(view, terms, chk.workdir, shard=100,
                                           header="From J2M.Views Require Import Vinfer.")
        chk.views["X-infer" if view == "Vinfer" else "statement-test(raw,nfo,idempotent)"] = {"cases": tot, "disagreements": len(bad), "errors": errs[:2]}
        for b in bad[:5]:
            s, rn, dkr, dkf = inputs[b]
            disagreements.append({"view": view, "samples": s, "registry": list(rn), "dkr": dkr, "dkf": dkf})
        if errs:
            disagreements.append({"view": view, "error": errs[0]})
    # ---- registry level: after merge_models every model is in normal form and another pass changes nothing
    from .. import pipeline
    from json_to_models.generator import MetadataGenerator
    from json_to_models.registry import ModelRegistry
    gr = gen.Gen(chk.seed * 1000003 + 88)
    for i in range(300 if tier == "quick" else 10000):
        s = gr.literal_heavy() if i % 15 == 4 else gr.family() if i % 3 == 1 else gr.variants() if i % 3 == 2 else gr.samples(depth=4, nmax=4)
        spec = gr.r.choice([None, [("exact",)], [("percent", 0.5)], [("number", 2)], [("number", 1)], [("number", 10)], [("percent", 0.7), ("number", 3)]])
        sreg = impl.make_registry(RN3)
        G = MetadataGenerator(sreg)
        reg = ModelRegistry(*impl.make_cmp(spec))
        info = {"samples": s, "merge": spec, "stage": "registry"}
        chk.count(key=("reg", repr(s), repr(spec)), sample=info if i == 0 else None)
        try:
            reg.process_meta_data(G.generate(*copy.deepcopy(s)), "Root")
            reps = reg.merge_models(G)
        except Exception as e:  # noqa
            oracle_failed |= chk.fail("oracle", info, f"merge_models raises {type(e).__name__}: {e}")
            continue
        why = None
        for m in reg.models:
            v = nfcheck.nf_violations(m.type, sreg)
            if v:
                why = f"model {m.index} is not in normal form after merge_models: " + "; ".join(v[:2])
                break
            before = ct.pyty(m.type)
            try:
                G.optimize_type(m)
            except Exception as e:  # noqa
                why = f"another simplification pass over model {m.index} raises {type(e).__name__}: {e}"
                break
            if ct.pyty(m.type) != before:
                why = f"another simplification pass changes model {m.index}"
                break
        if why:
            oracle_failed |= chk.fail("oracle", info, why)
    # ---- X-union: every multiset of <= 3 members of the universe (the property's own quantifier)
    kmax = 3
    uterms, umeta = [], []
    for ms in irgen.multisets(irgen.UNIVERSE, kmax):
        term, fail = union_case(ms, RN3, passes=1)
        uterms.append(term)
        umeta.append(ms)
        chk.count(key=("u", repr(ms)), sample=None)
        if fail:
            oracle_failed |= chk.fail("oracle", {"union_members": ms, "passes": 1}, fail)
    both = irgen.UNIVERSE + irgen.UNIVERSE_OPT
    for ms in irgen.multisets(both, 2 if tier == "quick" else 3):
        if not any(has_opt(m) for m in ms):
            continue
        term, fail = union_case(ms, RN3, passes=2)
        uterms.append(term)
        umeta.append(ms)
        chk.count(key=("u", repr(ms)), sample={"union_members": ms} if len(chk.samples) < 5 else None)
        if fail:
            oracle_failed |= chk.fail("oracle", {"union_members": ms, "passes": 2}, fail)
    tot, bad, errs = common.eval_cases("Vunion", uterms, chk.workdir, shard=400)
    chk.views["X-union"] = {"cases": tot, "disagreements": len(bad), "errors": errs[:2], "exhaustive_kmax": kmax,
                            "universe": len(irgen.UNIVERSE)}
    for b in bad[:5]:
        disagreements.append({"view": "Vunion", "union_members": umeta[b]})
    if errs:
        disagreements.append({"view": "Vunion", "error": errs[0]})
    # ---- verdict for broken ties without a failing input
    if (not proofs_ok or disagreements) and not oracle_failed:
        what = []
        if not proofs_ok:
            what += [n for n, ok, _ in chk.obligations if not ok]
        what += sorted({d["view"] for d in disagreements})
        chk.fail_nowitness("; ".join(what), {"disagreements": disagreements[:5],
                                             "obligations": [o for o in chk.obligations if not o[1]]})


def finish(chk):
    return chk.finish(level="proof",
                      rule="corpus of minimised defects + random sample lists (keys from a small pool, all value kinds, "
                           "3/6 registered string types, dict-key options) + every multiset of <=3 members of a 35-type "
                           "universe (+ Optional members at the merging stage); a case is non-trivial when the inferred "
                           "result is distinct from every other case's result",
                      exhaustive=False)


def replay(chk, path):
    r = base.load_replay(path)
    if r.get("stage") == "registry":
        print("replay: re-run the registry-level oracle with ./check C08 (the case is in the file)")
        return 1
    if "samples" in r:
        why = oracle_samples(r["samples"], tuple(r.get("registry", RN3)), r.get("dkr"), r.get("dkf"))
    elif "union_members" in r:
        _, why = union_case(r["union_members"], RN3, passes=r.get("passes", 1))
    else:
        print("replay names a broken obligation / view, no concrete input:", r.get("broken"))
        return 1
    print("REPLAY", "FAILS: " + why if why else "passes")
    return 1 if why else 0
