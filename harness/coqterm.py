"""Python values -> Coq term text (for cases.v files evaluated by coqc)."""
from inspect import isclass


def cstr(s):
    return "[" + ";".join(str(ord(c)) for c in s) + "]%N"


def clist(items):
    return "[" + "; ".join(items) + "]"


def cbool(b):
    return "true" if b else "false"


def copt(x, f):
    return "None" if x is None else f"(Some {f(x)})"


def cjson(v):
    if v is None:
        return "JNull"
    if v is True or v is False:
        return f"(JBool {cbool(v)})"
    if isinstance(v, int):
        return f"(JInt ({v})%Z)"
    if isinstance(v, float):
        return "(JFloat 0%N)"          # float values are opaque to the model
    if isinstance(v, str):
        return f"(JStr {cstr(v)})"
    if isinstance(v, list):
        return "(JArr " + clist([cjson(x) for x in v]) + ")"
    if isinstance(v, dict):
        return "(JObj " + clist([f"({cstr(k)}, {cjson(x)})" for k, x in v.items()]) + ")"
    raise TypeError(v)


def cobj(d):
    """a sample (dict) as list (str * json)"""
    return clist([f"({cstr(k)}, {cjson(x)})" for k, x in d.items()])


PSEUDO = {"IntString": "PInt", "FloatString": "PFloat", "BooleanString": "PBool",
          "IsoDateString": "PDate", "IsoTimeString": "PTime", "IsoDatetimeString": "PDatetime"}


def index_to_n(ix):
    """'1A' -> 0, '1B' -> 1, ... '2A' -> 26"""
    return (int(ix[:-1]) - 1) * 26 + ord(ix[-1]) - 65


def cty(t):
    """implementation metadata -> Coq ty term"""
    from json_to_models.dynamic_typing import (DDict, DList, DOptional, DUnion, ModelPtr, Null, StringLiteral, Unknown)
    if isinstance(t, dict):
        return "(TObj " + cfields(t) + ")"
    if isclass(t):
        if t.__name__ in PSEUDO:
            return f"(TPseudo {PSEUDO[t.__name__]})"
        return {int: "TInt", float: "TFloat", bool: "TBool", str: "TStr"}[t]
    if isinstance(t, ModelPtr):
        return f"(TPtr {index_to_n(t.type.index)}%N)"
    if isinstance(t, DUnion):
        return "(TUnion " + clist([cty(x) for x in t.types]) + ")"
    if isinstance(t, DOptional):
        return f"(TOpt {cty(t.type)})"
    if isinstance(t, DList):
        return f"(TList {cty(t.type)})"
    if isinstance(t, DDict):
        return f"(TDict {cty(t.type)})"
    if isinstance(t, StringLiteral):
        return f"(TLit {cbool(t.overflowed)} " + clist([cstr(s) for s in sorted(t.literals)]) + ")"
    if t is Null:
        return "TNull"
    if t is Unknown:
        return "TUnknown"
    raise TypeError(repr(t))


def cfields(d):
    return clist([f"({cstr(k)}, {cty(v)})" for k, v in d.items()])


def pyty(t):
    """implementation metadata -> plain JSON-able Python structure (for replays / evidence samples)"""
    from json_to_models.dynamic_typing import (DDict, DList, DOptional, DUnion, ModelPtr, Null, StringLiteral, Unknown)
    if isinstance(t, dict):
        return {"obj": [[k, pyty(v)] for k, v in t.items()]}
    if isclass(t):
        return t.__name__
    if isinstance(t, ModelPtr):
        return {"ptr": t.type.index}
    if isinstance(t, DUnion):
        return {"union": [pyty(x) for x in t.types]}
    if isinstance(t, DOptional):
        return {"opt": pyty(t.type)}
    if isinstance(t, DList):
        return {"list": pyty(t.type)}
    if isinstance(t, DDict):
        return {"dict": pyty(t.type)}
    if isinstance(t, StringLiteral):
        return {"lit": sorted(t.literals), "overflow": t.overflowed}
    if t is Null:
        return "None"
    if t is Unknown:
        return "Unknown"
    return repr(t)
