"""Independent Python reading of 'value v inhabits inferred type t' on implementation metadata objects."""
from inspect import isclass


def admits(v, t):
    from json_to_models.dynamic_typing import (DDict, DList, DOptional, DUnion, ModelPtr, Null, StringLiteral,
                                               StringSerializable, Unknown)
    if isinstance(t, ModelPtr):
        return admits(v, t.type.type)
    if isinstance(t, dict):
        if not isinstance(v, dict):
            return False
        for k, x in v.items():
            if k not in t or not admits(x, t[k]):
                return False
        return all(isinstance(ft, DOptional) or k in v for k, ft in t.items())
    if isclass(t):
        if issubclass(t, StringSerializable):
            if not isinstance(v, str):
                return False
            try:
                t.to_internal_value(v)
                return True
            except ValueError:
                return False
        if t is int:
            return isinstance(v, int) and not isinstance(v, bool)
        if t is float:
            return isinstance(v, (int, float)) and not isinstance(v, bool)
        if t is bool:
            return isinstance(v, bool)
        if t is str:
            return isinstance(v, str)
        return False
    if t is Null:
        return v is None
    if t is Unknown:
        return True
    if isinstance(t, StringLiteral):
        return isinstance(v, str) and (t.overflowed or v in t.literals)
    if isinstance(t, DOptional):
        return v is None or admits(v, t.type)
    if isinstance(t, DList):
        return isinstance(v, list) and all(admits(x, t.type) for x in v)
    if isinstance(t, DDict):
        return isinstance(v, dict) and all(admits(x, t.type) for x in v.values())
    if isinstance(t, DUnion):
        return any(admits(v, m) for m in t.types)
    return False


def members(t):
    """the alternatives at a position: unwrap Optional and Union"""
    from json_to_models.dynamic_typing import DOptional, DUnion
    if isinstance(t, DOptional):
        return members(t.type)
    if isinstance(t, DUnion):
        out = []
        for m in t.types:
            out += members(m)
        return out
    return [t]
