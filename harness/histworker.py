"""Runs a history (a list of operation names) inside ONE process and prints the output of each call as JSON.
Used by the C14 / C15 oracles: python -m harness.histworker '<json list of ops>'   (cwd = /verif)"""
import hashlib
import json
import sys
import threading

from . import coqterm as ct, pipeline
from .common import setup_import_path

setup_import_path()

INPUTS = {
    # "mixed" / "flag" are unions whose members render differently per framework and literal limit (int | IntString, int | Literal)
    "A": [{"user": {"id": 1, "name": "x", "tags": ["a", "b"]}, "items": [{"id": 1, "v": "1"}, {"id": 2, "v": "2.5", "w": None}],
           "mixed": 1, "flag": 5},
          {"user": {"id": 2, "name": None}, "items": [], "mixed": "7", "flag": "on"}, {"user": {"id": 3, "name": "y"}, "items": [], "mixed": 2, "flag": "off"}],
    "B": [{"id": "7", "child": {"id": "8", "child": {"id": "9"}}, "été": True}, {"id": "x", "child": None}],
    # nested keys whose class names collide with names the emitted modules import, and a literal field with 5 values
    "C": [{"fields": [{"a": 1}], "base_model": {"b": 2}, "list": {"c": "x"}, "kind": "k1"}, {"fields": [], "kind": "k2"},
          {"kind": "k3"}, {"kind": "k4"}, {"kind": "k5"}],
    # input A again with the keys of every object in ANOTHER ORDER (same models, same indices, other field order)
    "Ar": [{"flag": 5, "mixed": 1, "items": [{"v": "1", "id": 1}, {"w": None, "v": "2.5", "id": 2}], "user": {"tags": ["a", "b"], "name": "x", "id": 1}},
           {"flag": "on", "mixed": "7", "items": [], "user": {"name": None, "id": 2}}, {"flag": "off", "mixed": 2, "items": [], "user": {"name": "y", "id": 3}}],
    # a child model shared by two different parents under one root: the nested layout lifts it to the common ancestor and
    # refers to it by ABSOLUTE path, i.e. generate_code runs with a non-empty AbsoluteModelRef context
    # date / time strings, some with a time-zone abbreviation dateutil can only guess (it warns), and a clean twin
    "T": [{"day": "2018-03-04", "at": "07:00 EST", "when": "2018-03-04T05:06:07", "n": "1"}, {"day": "2019-01-02", "at": "14:30 CET", "when": "2019-01-02T03:04:05", "n": "2"}],
    "T2": [{"day": "2018-03-04", "at": "07:00", "when": "2018-03-04T05:06:07", "n": "1"}, {"day": "2019-01-02", "at": "14:30", "when": "2019-01-02T03:04:05", "n": "2"}],
    "E": [{"child_0": {"item": {"a": 1, "b": "x"}, "n": 1}, "child_1": {"item": {"a": 2, "b": "y"}, "m": 2.5}}],
}
OPTS = {"A": dict(cmp=[("percent", 0.5)], unidecode=True), "B": dict(cmp=None, unidecode=False), "C": dict(cmp=None, unidecode=True),
        "E": dict(cmp=None, unidecode=True), "Ar": dict(cmp=[("percent", 0.5)], unidecode=True),
        "T": dict(cmp=None, unidecode=True, rn=("IntString", "FloatString", "BooleanString", "IsoDateString", "IsoTimeString", "IsoDatetimeString")),
        "T2": dict(cmp=None, unidecode=True, rn=("IntString", "FloatString", "BooleanString", "IsoDateString", "IsoTimeString", "IsoDatetimeString"))}
RENDERS = {"pf": dict(fw="pydantic", structure="flat"), "an": dict(fw="attrs", structure="nested", meta=True),
           "df": dict(fw="dataclasses", structure="flat", converters=True), "bn": dict(fw="base", structure="nested"),
           "d3": dict(fw="dataclasses", structure="flat", max_literals=3), "b16": dict(fw="base", structure="flat", max_literals=16),
           "sf": dict(fw="sqlmodel", structure="flat"),
           # string converters on for the plain and the attrs generator (df has them on for dataclasses)
           "bc": dict(fw="base", structure="flat", converters=True), "ac": dict(fw="attrs", structure="flat", converters=True),
           # nested layout even when the model graph is not a tree (a shared child): exercises the reference-path context
           "bN": dict(fw="base", structure="nested", force_nested=True), "dN": dict(fw="dataclasses", structure="nested", force_nested=True)}


def dump_registry(reg):
    return [[m.index, m.name, ct.pyty(m.type)] for m in reg.models]


class State:
    def __init__(self):
        self.regs = {}

    def registry(self, key):
        if key not in self.regs:
            o = dict(pipeline.DEFAULT_OPTS, **OPTS[key])
            self.regs[key] = pipeline.build_registry([("Root", INPUTS[key])], o)[0]
        return self.regs[key]

    def call(self, op):
        kind, *args = op.split(":")
        if kind == "G":          # a generation: fresh generator + registry, explicit string registry
            o = dict(pipeline.DEFAULT_OPTS, **OPTS[args[0]])
            reg = pipeline.build_registry([("Root", INPUTS[args[0]])], o)[0]
            self.regs[args[0]] = reg
            return {"registry": dump_registry(reg)}
        if kind == "R":          # render registry args[0] with render options args[1]
            reg = self.registry(args[0])
            o = dict(pipeline.DEFAULT_OPTS, **OPTS[args[0]])
            o.update(RENDERS[args[1]])
            if o["structure"] == "nested" and not o.get("force_nested") and not pipeline.tree_shaped(reg):
                o["structure"] = "flat"
            return {"text": pipeline.render(reg, o)}
        if kind == "F":          # a render that raises inside code generation after k classes
            reg = self.registry(args[0])
            k = int(args[1])
            base = pipeline.generator_class("pydantic")
            n = [0]

            class Failing(base):
                def generate(self, *a, **kw):
                    n[0] += 1
                    if n[0] > k:
                        raise RuntimeError("injected failure in code generation")
                    return super().generate(*a, **kw)
            from json_to_models.models.base import generate_code
            from json_to_models.models.structure import compose_models, compose_models_flat
            o = dict(pipeline.DEFAULT_OPTS, **OPTS[args[0]])
            compose = compose_models if len(args) > 2 and args[2] == "N" else compose_models_flat     # F:<input>:<k>:N = nested layout
            try:
                generate_code(compose(reg.models_map), Failing, class_generator_kwargs=pipeline.generator_kwargs(dict(o, fw="pydantic")))
                return {"raised": None}
            except RuntimeError as e:
                return {"raised": str(e)}
        if kind == "D":          # something that mutates the default string registry (what --datetime does)
            from json_to_models.dynamic_typing import register_datetime_classes, registry
            if len(registry.types) == 3:
                register_datetime_classes()
            return {"default_registry": [c.__name__ for c in registry.types]}
        if kind == "X":          # remove_by_name on the default registry (what --disable-str-serializable-types does)
            from json_to_models.dynamic_typing import registry
            registry.remove_by_name("float")
            return {"default_registry": [c.__name__ for c in registry.types]}
        raise ValueError(op)


def run_history(ops):
    st = State()
    out = []
    for op in ops:
        try:
            out.append(st.call(op))
        except Exception as e:  # noqa
            out.append({"error": f"{type(e).__name__}: {e}"})
    return out


def run_threads(ops, nthreads, switch):
    """every thread runs the same list of ops on its own State (independent pipelines), concurrently"""
    sys.setswitchinterval(switch)
    results = [None] * nthreads
    barrier = threading.Barrier(nthreads)

    def work(i):
        barrier.wait()
        results[i] = run_history(ops[i])
    ts = [threading.Thread(target=work, args=(i,)) for i in range(nthreads)]
    for t in ts:
        t.start()
    for t in ts:
        t.join()
    return results


class Sched:
    """Deterministic cooperative scheduler for the threads of run_sched: exactly one thread runs at a time; control changes
    hands only at yield points (entry of every code-generator constructor and of every generate() call, entry of
    generate_code / merge_models / MetadataGenerator.generate).  A schedule is a list of segments [thread, k]: "let this
    thread run until it has reached k further yield points (or ended)"; when the list is used up the unfinished threads run
    to the end one after the other."""

    def __init__(self, n, segments):
        self.cv = threading.Condition()
        self.done = [False] * n
        self.segments = [tuple(x) for x in segments]
        self.turn, self.left = None, 0
        self.ids = {}
        self._next()

    def _next(self):
        while self.segments:
            t, k = self.segments.pop(0)
            if not self.done[t] and k > 0:
                self.turn, self.left = t, k
                return
        rest = [i for i, d in enumerate(self.done) if not d]
        self.turn, self.left = (rest[0], 10 ** 9) if rest else (None, 0)

    def begin(self, i):
        with self.cv:
            self.ids[threading.get_ident()] = i
            self.cv.wait_for(lambda: self.turn == i)

    def point(self):
        i = self.ids.get(threading.get_ident())
        if i is None:
            return
        with self.cv:
            self.left -= 1
            if self.left <= 0:
                self._next()
                self.cv.notify_all()
            self.cv.wait_for(lambda: self.turn == i)

    def end(self, i):
        with self.cv:
            self.done[i] = True
            self._next()
            self.cv.notify_all()


def run_sched(ops, segments):
    """the threads of run_threads under a forced schedule (see Sched); -> per-thread outputs"""
    from json_to_models.models import base as mb
    from json_to_models import generator as gm, registry as rm
    n = len(ops)
    sched = Sched(n, segments)

    def wrap(owner, name):
        orig = getattr(owner, name)

        def w(*a, **k):
            sched.point()
            return orig(*a, **k)
        setattr(owner, name, w)
    wrap(mb.GenericModelCodeGenerator, "__init__")
    wrap(mb.GenericModelCodeGenerator, "generate")
    wrap(gm.MetadataGenerator, "generate")
    wrap(rm.ModelRegistry, "merge_models")
    if hasattr(rm.ModelRegistry, "_models_cmp_fn"):
        wrap(rm.ModelRegistry, "_models_cmp_fn")        # every pairwise similarity test inside merge_models
    results = [None] * n

    def work(i):
        sched.begin(i)
        try:
            results[i] = run_history(ops[i])
        finally:
            sched.end(i)
    ts = [threading.Thread(target=work, args=(i,)) for i in range(n)]
    for t in ts:
        t.start()
    for t in ts:
        t.join()
    return results


if __name__ == "__main__":
    spec = json.loads(sys.argv[1])
    if spec.get("schedule") is not None:
        res = run_sched(spec["ops"], spec["schedule"])
    elif spec.get("threads"):
        res = run_threads(spec["ops"], spec["threads"], spec.get("switch", 1e-6))
    else:
        res = run_history(spec["ops"])
    print(json.dumps(res))
