"""Input generators.  Every random choice comes from one random.Random seeded by the caller, so a case is
replayable from (seed, index)."""
import random

KEYS = ["a", "b", "c", "d", "id", "name", "value", "items", "x", "y"]
PLAIN = ["x", "foo", "bar", "s" * 19, "t" * 20, "u" * 21, "hello world", "a,b", 'q"uote', "back\\slash", "new\nline",
         "été", "中", "\U0001F600", "", "Foo", "FOO", " true", "False ", "a", "b", "...", "1 ", "nan ", "\u2028x"]
INTS = ["1", "42", "-7", "+3", " 5 ", "1_000", "0", "١٢", "1" * 40, "115792089237316195423570985008687907853269984665640564039457584007913129639935"]
FLOATS = ["1.5", "-0.25", "1e3", "inf", "nan", ".5", "2.", "1_0.5", "-Infinity", "3." + "14159265358979323846" * 2, "1e400"]
BOOLS = ["true", "false", "True", "FALSE"]
DATES = ["2020-01-02", "2020-01", "20200102"]
TIMES = ["12:30", "12:30:45", "12:30:45.123", "T12"]
DATETIMES = ["2020-01-02T03:04:05", "2020-01-02T03:04:05Z", "2020-01-02 03:04", "2020-01-02T03:04:05.123+01:00"]


class Gen:
    def __init__(self, seed, datetime=False, keys=None, plain=None):
        self.r = random.Random(seed)
        self.datetime = datetime
        self.keys = keys or KEYS
        self.plain = plain or PLAIN

    def string(self):
        r = self.r
        k = r.random()
        if k < 0.45:
            return r.choice(self.plain)
        if k < 0.6:
            return r.choice(INTS)
        if k < 0.75:
            return r.choice(FLOATS)
        if k < 0.85:
            return r.choice(BOOLS)
        if self.datetime:
            return r.choice(DATES + TIMES + DATETIMES)
        return r.choice(self.plain[:4])

    def scalar(self):
        r = self.r
        k = r.random()
        if k < 0.15:
            return None
        if k < 0.25:
            return r.choice([True, False])
        if k < 0.45:
            return r.choice([0, 1, -5, 10 ** 12])
        if k < 0.55:
            return r.choice([1.5, -0.0, 2.0, 1e100])
        return self.string()

    def value(self, depth):
        r = self.r
        k = r.random()
        if depth <= 0 or k < 0.5:
            return self.scalar()
        if k < 0.58:
            return r.choice([[], [None], {}, [[]], [{}]])
        if k < 0.75:
            return [self.value(depth - 1) for _ in range(r.randint(1, 3))]
        if k < 0.8:   # homogeneous list of objects: the usual shape of real data
            ks = r.sample(self.keys, r.randint(1, 3))
            return [{kk: self.value(depth - 2) for kk in ks if r.random() < 0.8} for _ in range(r.randint(1, 3))]
        return self.obj(depth - 1)

    def obj(self, depth, nmin=1, nmax=4):
        r = self.r
        n = r.randint(nmin, min(nmax, len(self.keys)))
        return {k: self.value(depth) for k in r.sample(self.keys, n)}

    def samples(self, depth=3, nmax=3):
        r = self.r
        out = [self.obj(depth) for _ in range(r.randint(1, nmax))]
        if len(out) < nmax and r.random() < 0.06:
            out.insert(0 if r.random() < 0.7 else r.randrange(len(out) + 1), {})       # an empty record, usually the FIRST one
        return out

    def family(self):
        """the usual shape of real data: sibling objects of ONE shape under a root, each holding a list of child objects
        whose keys are subsets of one pool (so parents merge, children merge, and a merged child can equal one of its
        members), plus look-alike leaf siblings"""
        r = self.r
        pool = r.sample(self.keys, min(len(self.keys), r.randint(4, 7)))
        pk = [f"k{i}" for i in range(r.randint(2, 4))]
        child_key = r.choice(["x", "items", "children"])

        def child(full):
            ks = pool if full else [k for k in pool if r.random() < 0.8] or pool[:1]
            return {k: (i if r.random() < 0.8 else r.choice([None, str(i), 1.5])) for i, k in enumerate(ks)}

        def parent():
            o = {k: i for i, k in enumerate(pk)}
            n = r.randint(1, 3)
            o[child_key] = [child(j == 0 and r.random() < 0.7) for j in range(n)]
            return o
        root = {f"p{i}": parent() for i in range(r.randint(2, 3))}
        if r.random() < 0.5:       # look-alike leaf siblings
            leaf = {k: 1.5 for k in r.sample(pool, min(3, len(pool)))}
            root["home"], root["work"] = dict(leaf), dict(leaf)
        out = [root]
        if r.random() < 0.4:
            out.append({f"p{i}": parent() for i in range(r.randint(1, 3))})
        return out

    def type_twin(self, samples):
        """insert, right after one sample, a copy that is EQUAL under Python's == but differs in JSON type somewhere
        (1 / 1.0, 0 / false, 1 / true): anything that compares or de-duplicates samples with == loses a type"""
        r = self.r

        def twin(v):
            if isinstance(v, bool):
                return int(v)
            if isinstance(v, int):
                return float(v) if r.random() < 0.7 or v not in (0, 1) else bool(v)
            if isinstance(v, float) and v == int(v) and abs(v) < 1e15:
                return int(v)
            if isinstance(v, list):
                return [twin(x) for x in v]
            if isinstance(v, dict):
                return {k: twin(x) for k, x in v.items()}
            return v
        i = r.randrange(len(samples))
        return samples[:i + 1] + [twin(samples[i])] + samples[i + 1:]

    def variants(self):
        """3-4 samples, each holding ONE nested object under a different key; the objects share their field names and differ
        in what a field holds (int / float / missing / null / numeric string): the models get merged, and what the merged
        field looks like before simplification depends on the order in which the members arrive"""
        r = self.r
        fields = r.sample(["f", "g", "h", "i", "j"], r.randint(3, 4))
        tops = r.sample(["x", "y", "z", "w"], r.randint(2, 4))
        out = []
        for _ in range(r.randint(3, 4)):
            o = {}
            for k in fields:
                c = r.random()
                if c < 0.45:
                    o[k] = 1
                elif c < 0.6:
                    o[k] = 1.5
                elif c < 0.75:
                    continue
                elif c < 0.82:
                    o[k] = None
                elif c < 0.9:
                    o[k] = r.choice(["1", "2.5", "true"])
                else:
                    o[k] = r.choice([[], [1], {}])
            out.append({r.choice(tops): o})
        return out

    def pseudo_merge(self):
        """objects under two or three different keys that get merged into one model, where one field holds a string
        pseudo-type next to another type in the first object kind and the same pseudo-type or nothing in the later ones"""
        r = self.r
        ps = r.choice([["9.99", "19.50"], ["true", "false"], ["2.5", "1e3"], ["1", "2"]])
        other = r.choice([10, 1.5, None, [1]])
        tops = r.sample(["x", "y", "z"], r.randint(2, 3))
        out = []
        for ti, t in enumerate(tops):
            if ti == 0:
                vals = [ps[0], other]
            else:
                vals = [ps[1], r.choice(["missing", ps[0], None])]
            for v in vals:
                o = {"g": 1, "h": 2, "i": 3}
                if v != "missing":
                    o["f"] = v
                out.append({t: o})
        return out

    def literal_heavy(self):
        """samples whose literal sets come close to the limits and OVERLAP: a key holding p distinct short strings
        (p around MAX_LITERALS = 15) with repeats, a list of strings drawing from the same pool, and two nested objects
        that share most of their values (they meet again when the registry merges them)"""
        r = self.r
        p = r.choice([7, 9, 13, 14, 15, 15, 16, 17])
        pool = [f"v{i}" for i in range(p)]
        k1, k2, k3, k4 = r.sample(self.keys, 4)
        out = []
        order = pool + [r.choice(pool) for _ in range(r.randint(1, 4))]
        if r.random() < 0.5:
            r.shuffle(order)
        half = p // 2 + 3
        for i, s in enumerate(order):
            o = {k1: s}
            if r.random() < 0.3:
                o[k2] = r.sample(pool, r.randint(1, min(p, 6)))
            if r.random() < 0.25:
                o[k3] = {"name": r.choice(pool[:half]), "id": i}
            if r.random() < 0.25:
                o[k4] = {"name": r.choice(pool[p - half:]), "id": i}
            out.append(o)
        return out


def all_strings(v, acc=None):
    """every str value (not key) in a JSON value"""
    if acc is None:
        acc = set()
    if isinstance(v, str):
        acc.add(v)
    elif isinstance(v, list):
        for x in v:
            all_strings(x, acc)
    elif isinstance(v, dict):
        for x in v.values():
            all_strings(x, acc)
    return acc


def all_keys(v, acc=None):
    if acc is None:
        acc = set()
    if isinstance(v, list):
        for x in v:
            all_keys(x, acc)
    elif isinstance(v, dict):
        for k, x in v.items():
            acc.add(k)
            all_keys(x, acc)
    return acc
