"""Structural reading of 'the generated classes accept this sample' over the EVALUATED annotations of a loaded module
(base / attrs / dataclasses), and pydantic's own parser for pydantic / sqlmodel output."""
import dataclasses
import typing
from inspect import isclass


def class_hints(cls, module, outer=()):
    ns = dict(module.__dict__)
    for o in outer:
        ns.update({k: v for k, v in vars(o).items() if isinstance(v, type)})
        ns[o.__name__] = o
    ns.update({k: v for k, v in vars(cls).items() if isinstance(v, type)})
    ns[cls.__name__] = cls
    return typing.get_type_hints(cls, ns, dict(ns))   # distinct dicts: ForwardRef caches its value when localns is globalns


def has_default(cls, name, fw):
    if fw == "dataclasses":
        for f in dataclasses.fields(cls):
            if f.name == name:
                return f.default is not dataclasses.MISSING or f.default_factory is not dataclasses.MISSING
        return False
    if fw == "attrs":
        import attr
        for a in attr.fields(cls):
            if a.name == name:
                return a.default is not attr.NOTHING
        return False
    return hasattr(cls, name)


def original_key(cls, name, fw):
    """the JSON key a field stands for: metadata when present, else the Python name"""
    from json_to_models.models.base import METADATA_FIELD_NAME
    if fw == "dataclasses":
        for f in dataclasses.fields(cls):
            if f.name == name:
                return f.metadata.get(METADATA_FIELD_NAME, name)
    if fw == "attrs":
        import attr
        for a in attr.fields(cls):
            if a.name == name:
                return a.metadata.get(METADATA_FIELD_NAME, name)
    return name


class Validator:
    def __init__(self, module, fw, label_fn, optional_is_default=False):
        self.m, self.fw, self.label = module, fw, label_fn
        self.optional_is_default = optional_is_default
        self.errors = []
        self._hints = {}
        self._outer = {}
        for v in vars(module).values():
            if isinstance(v, type) and v.__module__ == module.__name__:
                self._walk_outer(v, ())

    def _walk_outer(self, cls, outer):
        self._outer[cls] = outer
        for v in vars(cls).values():
            if isinstance(v, type) and v.__module__ == self.m.__name__:
                self._walk_outer(v, outer + (cls,))

    def hints(self, cls):
        if cls not in self._hints:
            self._hints[cls] = class_hints(cls, self.m, self._outer.get(cls, ()))
        return self._hints[cls]

    def fits(self, v, tp, path):
        from json_to_models.dynamic_typing import StringSerializable
        if tp is typing.Any:
            return True
        if tp is None or tp is type(None):
            return v is None
        org = typing.get_origin(tp)
        if org is typing.Union:
            return any(self.fits(v, a, path) for a in typing.get_args(tp))
        if org is typing.Literal:
            return isinstance(v, str) and v in typing.get_args(tp)
        if org in (list, typing.List):
            (a,) = typing.get_args(tp) or (typing.Any,)
            return isinstance(v, list) and all(self.fits(x, a, path + "[]") for x in v)
        if org in (dict, typing.Dict):
            args = typing.get_args(tp)
            a = args[1] if len(args) == 2 else typing.Any
            return isinstance(v, dict) and all(isinstance(k, str) and self.fits(x, a, path + "{}") for k, x in v.items())
        if isclass(tp):
            if issubclass(tp, StringSerializable):
                if not isinstance(v, str):
                    return False
                try:
                    tp.to_internal_value(v)
                    return True
                except ValueError:
                    return False
            if tp is int:
                return isinstance(v, int) and not isinstance(v, bool)
            if tp is float:
                return isinstance(v, (int, float)) and not isinstance(v, bool)
            if tp is bool:
                return isinstance(v, bool)
            if tp is str:
                return isinstance(v, str)
            if tp.__module__ == self.m.__name__:
                return isinstance(v, dict) and self.obj(v, tp, path, record=False)
        return False

    def obj(self, v, cls, path, record=True):
        """every key maps to exactly one field admitting its value; every field without a default is present"""
        errs = []
        h = self.hints(cls)
        own = [n for n in h if n in getattr(cls, "__annotations__", {})]
        by_key = {}
        for n in own:
            by_key.setdefault(original_key(cls, n, self.fw), []).append(n)
        used = set()
        for k, x in v.items():
            cands = by_key.get(k) or by_key.get(self.label(k)) or []
            if len(cands) != 1:
                errs.append(f"{path}: key {k!r} maps to {len(cands)} fields of {cls.__name__}")
                continue
            n = cands[0]
            used.add(n)
            if not self.fits(x, h[n], f"{path}.{k}"):
                errs.append(f"{path}.{k}: value {x!r:.60} is not in {h[n]!r:.120}")
        for n in own:
            if n not in used and not has_default(cls, n, self.fw) and not (
                    self.optional_is_default and (h[n] is type(None) or (typing.get_origin(h[n]) is typing.Union and type(None) in typing.get_args(h[n])))):
                errs.append(f"{path}: required field {n} of {cls.__name__} is absent")
        if record:
            self.errors += errs
        return not errs
