"""AST view of an emitted module: class tree, fields (name, annotation text, default text), imports."""
import ast


def class_tree(code):
    """-> list of class dicts {name, fields:[(name, ann, default)], nested:[...], decorators, bases}"""
    tree = ast.parse(code)

    def one(c):
        fields, nested = [], []
        for st in c.body:
            if isinstance(st, ast.AnnAssign) and isinstance(st.target, ast.Name):
                fields.append((st.target.id, ast.unparse(st.annotation), ast.unparse(st.value) if st.value is not None else None))
            elif isinstance(st, ast.ClassDef):
                nested.append(one(st))
        return {"name": c.name, "fields": fields, "nested": nested,
                "decorators": [ast.unparse(d) for d in c.decorator_list],
                "bases": [ast.unparse(b) for b in c.bases] + [f"{k.arg}={ast.unparse(k.value)}" for k in c.keywords]}
    return [one(c) for c in tree.body if isinstance(c, ast.ClassDef)], tree


def flatten(classes, parent=None, out=None):
    out = [] if out is None else out
    for c in classes:
        out.append((c, parent))
        flatten(c["nested"], c, out)
    return out


def imported_names(tree):
    names = set()
    for st in tree.body:
        if isinstance(st, ast.Import):
            for a in st.names:
                names.add((a.asname or a.name).split(".")[0])
        elif isinstance(st, ast.ImportFrom):
            for a in st.names:
                names.add(a.asname or a.name)
    return names
