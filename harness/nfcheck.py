"""Executable statement of C08 on implementation objects (an independent Python reading of the property)."""
from inspect import isclass


def nf_violations(t, registry, path="$"):
    """-> list of strings describing violations of the normal form inside t"""
    from json_to_models.dynamic_typing import (DDict, DList, DOptional, DUnion, ModelPtr, Null, StringLiteral, Unknown,
                                               get_hash_string)
    out = []
    if isinstance(t, dict):
        for k, v in t.items():
            out += nf_violations(v, registry, f"{path}.{k}")
    elif isinstance(t, DUnion):
        ms = t.types
        if len(ms) == 0:
            out.append(f"{path}: empty union")
        if len(ms) == 1:
            out.append(f"{path}: union with a single member")
        # identity of a member as the user sees it, computed here and NOT with the package's get_hash_string (its cache is
        # part of what is being judged): a model reference by its target, anything else structurally
        from . import coqterm as _ct
        hs = [("ptr", m.type.index) if isinstance(m, ModelPtr) else repr(_ct.pyty(m)) for m in ms]
        if len(set(hs)) != len(hs):
            out.append(f"{path}: duplicate members")
        if any(isinstance(m, DUnion) for m in ms):
            out.append(f"{path}: nested union")
        if any(m is Null for m in ms):
            out.append(f"{path}: null member")
        if any(isinstance(m, DOptional) for m in ms):
            out.append(f"{path}: Optional member")
        if int in ms and float in ms:
            out.append(f"{path}: int next to float")
        strlike = [m for m in ms if isclass(m) and m in registry.types]
        lits = [m for m in ms if isinstance(m, StringLiteral)]
        if str in ms and (strlike or lits):
            out.append(f"{path}: str next to a literal or pseudo-type")
        if len(strlike) > 1:
            out.append(f"{path}: several string pseudo-types")
        if len(lits) > 1:
            out.append(f"{path}: several literals")
        if sum(isinstance(m, DList) for m in ms) > 1:
            out.append(f"{path}: several lists")
        if sum(isinstance(m, DDict) for m in ms) > 1:
            out.append(f"{path}: several mappings")
        if sum(isinstance(m, dict) for m in ms) > 1:
            out.append(f"{path}: several objects")
        if any(m is Unknown for m in ms):
            out.append(f"{path}: Any beside a concrete member")
        for i, m in enumerate(ms):
            out += nf_violations(m, registry, f"{path}|{i}")
    elif isinstance(t, DOptional):
        if isinstance(t.type, DOptional):
            out.append(f"{path}: Optional nested in Optional")
        out += nf_violations(t.type, registry, path + "?")
    elif isinstance(t, ModelPtr):
        pass
    elif isinstance(t, (DList, DDict)):
        out += nf_violations(t.type, registry, path + "[]")
    elif isinstance(t, StringLiteral):
        if t.overflowed or not t.literals:
            out.append(f"{path}: overflowed or empty literal survives")
    return out
