"""Canonical form of a model registry up to renaming of indices, field order, union member order and numeric name suffixes:
colour refinement with the colour HASHED at every round (merged graphs are recursive; never unfold pointers)."""
import hashlib
import re
from inspect import isclass


def _h(x):
    return hashlib.sha1(repr(x).encode("utf8", "surrogatepass")).hexdigest()[:16]


def _ty(t, colour):
    from json_to_models.dynamic_typing import DDict, DList, DOptional, DUnion, ModelPtr, Null, StringLiteral, Unknown
    if isinstance(t, dict):
        return ("obj", tuple(sorted((k, _ty(v, colour)) for k, v in t.items())))
    if isclass(t):
        return ("cls", t.__name__)
    if isinstance(t, ModelPtr):
        return ("ptr", colour[t.type.index])
    if isinstance(t, DUnion):
        return ("union", tuple(sorted(_h(_ty(x, colour)) for x in t.types)))
    if isinstance(t, DOptional):
        return ("opt", _ty(t.type, colour))
    if isinstance(t, DList):
        return ("list", _ty(t.type, colour))
    if isinstance(t, DDict):
        return ("dict", _ty(t.type, colour))
    if isinstance(t, StringLiteral):
        return ("lit", t.overflowed, tuple(sorted(t.literals)))
    if t is Null:
        return ("null",)
    if t is Unknown:
        return ("any",)
    return ("?", repr(t))


def base_name(name):
    """strip the numeric suffix that fix_name_duplicates appends (Name_1B)"""
    return re.sub(r"_\d+[A-Z]$", "", name or "")


def canon(reg, with_names=True):
    models = list(reg.models)
    colour = {m.index: _h((base_name(m.name) if with_names else "", tuple(sorted(m.type.keys())))) for m in models}
    for _ in range(len(models) + 1):
        colour = {m.index: _h((colour[m.index], tuple(sorted((k, _h(_ty(v, colour))) for k, v in m.type.items())))) for m in models}
    return tuple(sorted(colour.values()))
